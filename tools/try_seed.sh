#!/bin/sh
# tools/try_seed.sh <seed dir> <check ids...>: confirm the seed in a scratch worktree of /repo HEAD, then
# apply it to /repo, run the given checks (quick unless TIER is set), and undo it.
SEED="$(cd "$1" && pwd)"; shift
WT=/var/tmp/vf-seed-$$
git -C /repo worktree add -q --detach $WT HEAD || exit 2
cp "$SEED/demo.py" $WT/demo.py
( cd $WT && /venv/bin/python -W ignore demo.py >/dev/null 2>&1 ); echo "demo on clean tree: exit=$?"
if ! git -C $WT apply "$SEED/patch.diff" 2>/dev/null; then
  if ! git -C $WT apply --3way "$SEED/patch.diff" 2>/dev/null; then echo "PATCH DOES NOT APPLY"; git -C /repo worktree remove --force $WT; exit 2; fi
fi
( cd $WT && /venv/bin/python -W ignore demo.py >/dev/null 2>&1 ); echo "demo on seeded tree: exit=$?"
( cd $WT && /venv/bin/python -m pytest -q -p no:cacheprovider -x 2>&1 | tail -1 )
git -C $WT diff HEAD -- musicxml > /var/tmp/vf-seed-$$.diff
git -C /repo worktree remove --force $WT
rm -rf /var/tmp/vf-seed-ev-$$; cp -r /verif/evidence /var/tmp/vf-seed-ev-$$   # the seeded runs must not replace the evidence of the unchanged tree
git -C /repo apply /var/tmp/vf-seed-$$.diff || { echo "cannot apply to /repo"; exit 2; }
for c in "$@"; do

  ( cd /verif && ./check $c --tier ${TIER:-quick} > /var/tmp/vf-seed-$$.out 2>&1; echo "$c exit=$?"; grep "^VIOLATION" -A1 /var/tmp/vf-seed-$$.out | head -6 | cut -c1-260 )
done
git -C /repo checkout -- . ; cp /var/tmp/vf-seed-ev-$$/*.json /verif/evidence/; rm -rf /var/tmp/vf-seed-ev-$$; rm -f /var/tmp/vf-seed-$$.diff /var/tmp/vf-seed-$$.out
git -C /repo status --short | head -3
