#!/usr/bin/env python3
"""Developer command: drop known-findings entries of tier `quick` that the latest quick evidence of the given
properties reports as not reproduced (run the quick checks first)."""
import json, sys, os
root = os.path.dirname(os.path.dirname(os.path.abspath(__file__)))
p = os.path.join(root, 'known_findings.json')
d = json.load(open(p))
gone = set()
for prop in sys.argv[1:]:
    ev = json.load(open(os.path.join(root, 'evidence', prop + '.json')))
    if ev['tier'] != 'quick':
        continue
    gone |= set(ev['coverage'].get('known_findings_not_reproduced', []))
before = len(d['known'])
d['known'] = [e for e in d['known'] if not (e['key'] in gone and e.get('tier', 'quick') == 'quick')]
json.dump(d, open(p, 'w'), indent=1, sort_keys=True)
print('pruned', before - len(d['known']))
