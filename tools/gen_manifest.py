#!/usr/bin/env python3
"""Regenerates MANIFEST.json from the table below (developer command)."""
import json, os
root = os.path.dirname(os.path.dirname(os.path.abspath(__file__)))
BASE = "cd /repo && /venv/bin/python -m pytest -ra -q -p no:cacheprovider --timeout=900 --continue-on-collection-errors"
CHECKS = {
 'C03': dict(cat='translation_validation', tech='z3 regular-language equivalence / inclusion and finite-relation queries on tables extracted from the imported library vs an independently derived, pinned model of the XSD',
             text='Every generated or hand-written table of the library (class inventory, type binding, content-model templates and fresh-instance trees, attribute tables, simple-type facets and patterns, the schema copy) is compared with an independent reading of MusicXML 4.0; content models and patterns by unbounded regular-language equivalence decided by z3, the rest as finite relations.',
             note='trusts vf/refmodel.py and the pinned model, z3 sequence theory, the two regex translators (cross-validated against re); patterns relative to a finite alphabet and length <= 10/14', ref='3 C03'),
}
NA = {}
allp = [json.loads(l)['id'] for l in open(os.path.join(root, 'properties.jsonl'))]
for p in allp:
    if p not in CHECKS and p not in NA:
        NA[p] = 'check not built yet in this round (work in progress; see DESIGN.md section 3)'
m = dict(version=1, setup_cmd='./setup.sh',
         hooks=dict(guard='MUSICXML_VERIF', enable='no hooks: checks import /repo as installed and install their intercepts from the harness process', baseline_off_cmd=BASE, source_commits=[], add_only=True),
         engines=[dict(name='symx', path='vf/symx.py', serves_properties=sorted(CHECKS), kind_free_text='z3-backed dynamic symbolic execution of the unmodified library + z3 language oracles from a pinned reference model')],
         checks=[dict(property_id=p, quick_cmd='./check %s --tier quick' % p, thorough_cmd='./check %s --tier thorough' % p,
                      evidence_file='evidence/%s.json' % p, replay_cmd_template='./check %s --replay {path}' % p, engine='symx',
                      level_claimed=dict(category=c['cat'], text=c['text'], design_ref=c['ref']), level_note=c['note'], technique=c['tech'])
                 for p, c in sorted(CHECKS.items())],
         notes='exit 0 held / 1 VIOLATION / 3 harness error (solver unknown, non-reproducing counterexample, vacuity guard)',
         not_applicable=[dict(property_id=p, reason=r) for p, r in sorted(NA.items())])
json.dump(m, open(os.path.join(root, 'MANIFEST.json'), 'w'), indent=1)
print('checks', len(m['checks']), 'n/a', len(m['not_applicable']))
