#!/usr/bin/env python3
"""Regenerates MANIFEST.json from the table below (developer command)."""
import json, os
root = os.path.dirname(os.path.dirname(os.path.abspath(__file__)))
BASE = "cd /repo && /venv/bin/python -m pytest -ra -q -p no:cacheprovider --timeout=900 --continue-on-collection-errors"
F1NOTE = 'bounded: history length / word length / alphabet as stated in evidence.bounds; children built with xsd_check=False (one level under test); oracle from the pinned reference model; z3 decides operand feasibility (closure queries) and the language oracle'
CHECKS = {
 'C01': dict(cat='model_checking', tech='z3-driven dynamic symbolic execution of the real API over operation histories; oracle = z3 regex membership in the reference content model',
             text='Every history of up to K child-mutating operations (8 kinds, operands chosen and closed by the solver) is executed on the real element classes; whenever to_string returns, the child sequence in the output must be a word of the schema content model (z3 regex membership, NFA cross-check). Bounded exploration of the implementation itself: states are completed paths, every trace ran on the real code.',
             note=F1NOTE, ref='3 C01'),
 'C02': dict(cat='model_checking', tech='words of each content model (NFA proposes, z3 confirms membership and closes each length with an unsat query) fed to the real add_child and parser',
             text='All words up to the length bound of all 94 content models, complete per length by a z3 closure query, are supplied in document order to add_child and to the parser; acceptance, completeness and identity-level order are asserted.',
             note=F1NOTE, ref='3 C02'),
 'C03': dict(cat='translation_validation', tech='z3 regular-language equivalence / inclusion and finite-relation queries on tables extracted from the imported library vs an independently derived, pinned model of the XSD',
             text='Every generated or hand-written table of the library (class inventory, type binding, content-model templates and fresh-instance trees, attribute tables, simple-type facets and patterns, the schema copy) is compared with an independent reading of MusicXML 4.0; content models and patterns by unbounded regular-language equivalence decided by z3, the rest as finite relations.',
             note='trusts vf/refmodel.py and the pinned model, z3 sequence theory, the two regex translators (cross-validated against re); patterns relative to a finite alphabet and length <= 10/14', ref='3 C03'),
 'C04': dict(cat='model_checking', tech='finite (class, attribute, route) table enumerated on the real API with z3-chosen values inside and outside each reference lexical space; symbolic exploration (int/Float64/string) of attribute assignment per distinct attribute type',
             text='Every declared (class, attribute) pair and foreign names on three routes (constructor keyword, dot assignment, parser) with valid and invalid values chosen by z3, then set / failed overwrite / overwrite / None; required attributes removed before to_string; per attribute type a symbolic exploration checks that every accepted value emits valid attribute text. Each class runs in a fresh process after every other simple type was used.',
             note='the (class, name) table is finite and enumerated; values are solver-chosen representatives, all values per type are C05\'s; python-side properties (xsd_check, value_, ...) are not judged as attributes', ref='3 C04'),
 'C05': dict(cat='model_checking', tech='dynamic symbolic execution of the real validators on symbolic int / Float64 / string values (z3), one validity query per path against the reference lexical spaces',
             text='The real simple-type classes and element constructors run on symbolic ints (unbounded), floats (all of Float64) and strings (finite alphabet, bounded length); all paths are enumerated and closed by unsat answers; per accepting path z3 is asked for a value whose emitted text is invalid, per rejecting path for a valid one; every path is cross-validated by a concrete run.',
             note='stubs: re.fullmatch -> z3 InRe of the translated pattern, get_cleaned_token identity on normalised strings, decimal.Decimal/format positional rendering; CPython str/repr lemmas; finite alphabet', ref='3 C05'),
 'C06': dict(cat='model_checking', tech='z3-driven dynamic symbolic execution over operation histories with identity-level view comparison after every operation',
             text='Same exploration as C01; after every operation the schema-ordered view, the insertion-ordered view and the harness record of live children are compared by object identity, parents of live and removed children are checked, and serialised child counts are compared.',
             note=F1NOTE, ref='3 C06'),
 'C07': dict(cat='model_checking', tech='add-only symbolic histories on the real code; oracle = Parikh-image feasibility of the content model in linear integer arithmetic (z3)',
             text='After every accepted addition the multiset of held children must be contained in some word of the content model, decided by z3 over the Parikh formula (unbounded word length); candidates are confirmed on the real code by to_string and a bounded completion search.',
             note=F1NOTE, ref='3 C07'),
 'C08': dict(cat='model_checking', tech='documents generated from the reference model (z3 models of lexical spaces and solver-checked child words) round-tripped through the real API, writer and parser',
             text='Per element class the minimal valid document, child words, every representative value of the content type and every declared attribute with representative values are built through the API, written, parsed back and re-serialised twice; infoset equality up to decimal spelling, byte-identical second trip, integer types preserved.',
             note='bounded: one attribute at a time, words <= 3/4, minimal children; values are solver-chosen representatives (bounds, interior, literals, pattern models, whitespace/markup strings), not all values', ref='3 C08'),
 'C09': dict(cat='model_checking', tech='documents written as XML text from the reference model alone (solver-checked words, canonical z3 models of lexical spaces, namespaced attribute forms) parsed by the real parser; one z3-chosen edit per document for the no-silent-loss half (incl. models of L(float()) minus xs:decimal)',
             text='Positive half: every generated schema-valid document must parse and re-serialise to the same infoset. Negative half: after one edit (undeclared child / attribute, character data where none is allowed, tail text, numeric look-alikes accepted by float()/int() but not by the schema, a comment) the parser must raise or reproduce every element, attribute and text value.',
             note='bounded like C08; float()/int() grammar modelled as a regular expression, every model validated against the builtin; real-world exports are not part of the solver-driven generation', ref='3 C09'),
 'C10': dict(cat='model_checking', tech='symbolic histories on the real code; every raising call compared with the pre-state and with a twin history without the failed calls (snapshot + acceptance vector)',
             text='Bounded exploration of histories in which calls fail; state before/after each failed call on the same object and end state versus a twin element that never saw the failed calls.',
             note=F1NOTE, ref='3 C10'),
 'C11': dict(cat='model_checking', tech='symbolic histories with removals on the real code compared with a fresh twin holding the remaining children',
             text='Bounded exploration of ADD/REMOVE/xml_x=None histories; after a removal the element must be observationally equal (serialisation or missing-children verdict, acceptance of each next child) to a fresh element with the remaining children.',
             note=F1NOTE, ref='3 C11'),
 'C12': dict(cat='model_checking', tech='multisets with a unique arrangement (two z3 arrangement queries) fed in all permutations to the real add_child; Parikh LIA for still-compatible children',
             text='(a) For multisets whose schema-valid arrangement is unique (decided by z3), every distinguishable insertion order must be accepted and serialise in that arrangement with same-named children in insertion order; (b) a child whose addition keeps the multiset completable (Parikh formula) must not be rejected.',
             note=F1NOTE, ref='3 C12'),
 'C13': dict(cat='model_checking', tech='per class in a fresh process: solver-enumerated histories and z3-chosen value / attribute probes on fresh instances recorded pristine, replayed after a battery of work on other instances; live instance and a digest of process-wide tables compared',
             text='Behaviour of fresh instances (snapshots, next-child acceptance, accept/reject and emitted text of valid and invalid values) must be the same in a pristine process and after other instances of the same, related and unrelated classes, deep copies, failing operations and intelligent-choice serialisation; a live instance must not move; class-level tables must be stable after warm-up.',
             note='the disturbance is a fixed battery (exhaustive=false); histories <= 2 operations', ref='3 C13'),
 'C14': dict(cat='model_checking', tech='generated element trees (C08 generator) with one post-construction edit, deep-copied and compared; one further edit for independence',
             text='Per element class: document variants x one post-construction edit (attribute set later / overwritten / removed, value changed, xsd_check off, child added / removed) -> deepcopy -> same serialisation, original unchanged, xsd_check kept, then independence under one more edit of either tree.',
             note='finite enumeration of edits; shapes and values from the reference model via z3; bounded to single edits', ref='3 C14'),
 'C15': dict(cat='model_checking', tech='differential symbolic exploration: every explored history is executed with the xml_* shortcuts and again with the explicit API calls they abbreviate',
             text='Breadth-first exploration of reachable states (plus a pass starting from valid words with repeated names); each history containing a shortcut is re-executed through find_child / replace_child / add_child / remove / value_; per-step outcomes and the final serialisation (children carry serial marks) must agree; shortcut reads must equal find_child / the stored attribute.',
             note=F1NOTE, ref='3 C15'),
 'C16': dict(cat='model_checking', tech='(i) strings over classes of XML characters in every free-text and free-string-attribute position recovered by a standard XML parser; (ii) symbolic exploration with to_string calls interleaved, compared with the twin history without the calls; (iii) subtree vs slice of the parent',
             text='Escaping itself is xml.etree code: part (i) checks with concrete representatives that the library hands values to the serialiser unmodified; parts (ii) and (iii) use the F1 exploration: a repeated to_string returns the same text, a history with to_string calls behaves like the one without them, and a subtree serialises alone as inside its parent.',
             note='part (i) is representative strings, not solver variables (stated in DESIGN.md as the weakest use of the technique); ' + F1NOTE, ref='3 C16'),
 'C17': dict(cat='model_checking', tech='environment harness: open() as seen from the library replaced by an in-memory file system; default text encoding, code point, fault position, prior file state and intelligent_choice are z3-enumerated decisions; atomicity asserted by a z3 query over a symbolic prior content',
             text='write(), parse_musicxml() and the import-time block of generate_classes/utils.py are executed under every combination of locale encoding (4), code point class (5), fault position (each node of a small score made invalid in turn) and prior destination state (7); a raising write must leave the file as it was for every prior content, a returning one must leave exactly declaration + to_string() in UTF-8.',
             note='open() stub contract (w truncates at open; no encoding= means locale encoding); codecs executed; ASCII/UTF-8 replayed in real subprocesses, Latin-1/cp1252 only under the stub', ref='3 C17'),
 'C18': dict(cat='model_checking', tech='symbolic exploration of an element created with xsd_check=False over its own and foreign children; comparison with the checked twin on valid words; mixed checked/unchecked trees',
             text='Breadth-first exploration of reachable states of unchecked elements (10 operation kinds incl. re-used stale children): no structural exception, insertion order in both views and in the output, byte-identical output to the checked twin for valid words; a checked node under an unchecked root still validates, an unchecked node in a checked tree is exempt.',
             note=F1NOTE, ref='3 C18'),
 'C19': dict(cat='model_checking', tech='exception / output / time monitor over z3-driven symbolic histories on the real code with the widest operand ranges',
             text='Every exception escaping a public call in the explored histories is classified as documented or internal, stdout/stderr are captured per call and each path runs under a timer.',
             note=F1NOTE + '; TypeError/ValueError treated as documented everywhere', ref='3 C19'),
 'C20': dict(cat='model_checking', tech='bounded model checking (z3) of a two-thread transition system extracted from the AST of every lazy-initialisation site in the current source; sat schedules replayed with real threads under a settrace scheduler',
             text='Every function with the lazy-initialisation idiom on a shared cell is linearised into line-granular steps; z3 searches all schedules of two threads with <= 2 (3) context switches for one in which a thread observes a shorter or unfinished table; each schedule found is replayed on the real code for the classes that reach the site and counts only if a thread\'s result differs from its single-threaded result.',
             note='model covers only the AST-recognised idiom, line granularity, two threads; exclusive branches concatenated (over-approximation)', ref='3 C20'),
}
NA = {}
allp = [json.loads(l)['id'] for l in open(os.path.join(root, 'properties.jsonl'))]
for p in allp:
    if p not in CHECKS and p not in NA:
        NA[p] = 'check not built yet in this round (work in progress; see DESIGN.md section 3)'
m = dict(version=1, setup_cmd='./setup.sh',
         hooks=dict(guard='MUSICXML_VERIF', enable='no hooks: checks import /repo as installed and install their intercepts from the harness process', baseline_off_cmd=BASE, source_commits=[], add_only=True),
         engines=[dict(name='symx', path='vf/symx.py', serves_properties=sorted(CHECKS), kind_free_text='z3-backed dynamic symbolic execution of the unmodified library + z3 language oracles from a pinned reference model')],
         checks=[dict(property_id=p, quick_cmd='./check %s --tier quick' % p, thorough_cmd='./check %s --tier thorough' % p,
                      evidence_file='evidence/%s.json' % p, replay_cmd_template='./check %s --replay {path}' % p, engine='symx',
                      level_claimed=dict(category=c['cat'], text=c['text'], design_ref=c['ref']), level_note=c['note'], technique=c['tech'])
                 for p, c in sorted(CHECKS.items())],
         notes='exit 0 held / 1 VIOLATION / 3 harness error (solver unknown, non-reproducing counterexample, vacuity guard)',
         not_applicable=[dict(property_id=p, reason=r) for p, r in sorted(NA.items())])
json.dump(m, open(os.path.join(root, 'MANIFEST.json'), 'w'), indent=1)
print('checks', len(m['checks']), 'n/a', len(m['not_applicable']))
