#!/usr/bin/env python3
"""Developer command: single-edit mutants of the matcher / element / validators / parser.
For each mutant: apply to /repo, run the pinned test suite; if it survives, run the given quick checks;
always undo.  Prints one line per mutant.  usage: tools/mutation_campaign.py [--only N1,N2] [--checks C01,C02,...]"""
import os
import subprocess
import sys

X = 'musicxml/xmlelement/xmlelement.py'
C = 'musicxml/xmlelement/xmlchildcontainer.py'
S = 'musicxml/xsd/xsdsimpletype.py'
P = 'musicxml/parser/parser.py'
T = 'musicxml/xsd/xsdcomplextype.py'
MUTS = [
    ('M01 intelligent: pop() -> pop(0)', C, "efficient_xml_element_name, forward_indices = sorted_options.pop()", "efficient_xml_element_name, forward_indices = sorted_options.pop(0)", 'C01,C02,C12'),
    ('M02 _set_requirements_fulfilled != -> ==', C, "                    for child in node.get_children():\n                        if child.min_occurrences != 0:", "                    for child in node.get_children():\n                        if child.min_occurrences == 0:", 'C01,C02'),
    ('M03 required names: drop min!=0', C, "            elif leaf.min_occurrences != 0 and False in [choice.requirements_fulfilled for choice in", "            elif False in [choice.requirements_fulfilled for choice in", 'C01,C02'),
    ('M04 no requirements_fulfilled on max', C, "        if self.max_is_reached:\n            self.requirements_fulfilled = True", "        if self.max_is_reached and False:\n            self.requirements_fulfilled = True", 'C01,C02,C10'),
    ('M05 disable intelligent rehoming on add', C, "            if forward is None and intelligent_choice is True:", "            if forward is None and intelligent_choice is True and False:", 'C12,C02'),
    ('M06 duplicate parent search shorter', C, "        for node in list(self.get_reversed_path_to_root())[:-1]:", "        for node in list(self.get_reversed_path_to_root())[:-2]:", 'C02,C12,C01'),
    ('M07 check_required: choice root shortcut removed', C, "            if isinstance(self.content, XSDChoice):\n                return requirements_exist\n", "            pass\n", 'C19,C01,C16'),
    ('M08 duplication parent: chosen_child not moved', C, "                parent.chosen_child = parent_container", "                pass", 'C01,C02,C06'),
    ('M09 dot set existing child: add instead of replace', X, "            if found_child:\n                self.replace_child(found_child, value)\n            else:\n                self.add_child(value)", "            if found_child and False:\n                self.replace_child(found_child, value)\n            else:\n                self.add_child(value)", 'C15,C06'),
    ('M10 to_string skips final checks when intelligent', X, "        if self.xsd_check:\n            self._final_checks(intelligent_choice=intelligent_choice)", "        if self.xsd_check and not intelligent_choice:\n            self._final_checks(intelligent_choice=intelligent_choice)", 'C01'),
    ('M11 group min 0 ignored in requires', C, "    if xsd_group_container.min_occurrences == 0 and not xsd_group_container.get_children()[0].force_validate:\n        return", "    if xsd_group_container.min_occurrences == 0:\n        return", 'C01'),
    ('M12 max_is_reached off by one', C, "            if len(self.content.xml_elements) == self.max_occurrences:\n                return True", "            if len(self.content.xml_elements) == self.max_occurrences + 1:\n                return True", 'C01,C07'),
    ('M13 set_force_validate first sibling only', C, "        for child in [ch for ch in self.get_children() if ch != node]:\n            for n in child.traverse():", "        for child in [ch for ch in self.get_children() if ch != node][:1]:\n            for n in child.traverse():", 'C01'),
    ('M14 get_children reversed within leaf', X, "            return [xml_element for leaf in self._child_container_tree.iterate_leaves() for xml_element in\n                    leaf.content.xml_elements if", "            return [xml_element for leaf in self._child_container_tree.iterate_leaves() for xml_element in\n                    reversed(leaf.content.xml_elements) if", 'C02,C12'),
    ('M15 remove: parent not cleared', X, "        child._parent = None\n        del child", "        del child", 'C06'),
    ('M16 add_child: unordered list not updated when checked', X, "        self._unordered_children.append(child)\n        child._parent = self\n        return child", "        if not self.xsd_check or len(self._unordered_children) < 3:\n            self._unordered_children.append(child)\n        child._parent = self\n        return child", 'C06'),
    ('M17 _set_attributes: none removal skipped for last key', X, "        for key in none_values_dict:\n            new_attributes.pop(key)\n            try:\n                self.attributes.pop(key)", "        for key in list(none_values_dict)[:-1] if len(none_values_dict) > 1 else none_values_dict:\n            new_attributes.pop(key)\n            try:\n                self.attributes.pop(key)", 'C04'),
    ('M18 required attributes only checked for first', X, "            for required_attribute in required_attributes:\n                if required_attribute.name not in self.attributes:", "            for required_attribute in required_attributes[:1]:\n                if required_attribute.name not in self.attributes:", 'C04'),
    ('M19 minExclusive becomes inclusive', S, "                    if child.tag == 'minExclusive' and v <= int(child.get_attributes()['value']):", "                    if child.tag == 'minExclusive' and v < int(child.get_attributes()['value']):", 'C05'),
    ('M20 maxInclusive off by one', S, "                    if child.tag == 'maxInclusive' and v > int(child.get_attributes()['value']):", "                    if child.tag == 'maxInclusive' and v > int(child.get_attributes()['value']) + 1:", 'C05'),
    ('M21 pattern search instead of fullmatch', S, "            if re.compile(self._PATTERN).fullmatch(v) is None:", "            if re.compile(self._PATTERN).match(v) is None:", 'C05'),
    ('M22 non negative integer accepts -1', S, "        if v < 0:\n            raise ValueError(f'value {v} must be non negative.')", "        if v < -1:\n            raise ValueError(f'value {v} must be non negative.')", 'C05'),
    ('M23 parser strips text of attribute values', P, "            output._set_attributes({k: v})\n        except (TypeError, ValueError):", "            output._set_attributes({k: v.strip()})\n        except (TypeError, ValueError):", 'C08,C09'),
    ('M24 parser: int before float for element text', P, "            output = eval(convert_to_xml_class_name(node.tag))(value_=_to_float(text))\n        except TypeError:\n            output = eval(convert_to_xml_class_name(node.tag))(value_=_to_int(text))", "            output = eval(convert_to_xml_class_name(node.tag))(value_=_to_int(text))\n        except (TypeError, ValueError):\n            output = eval(convert_to_xml_class_name(node.tag))(value_=_to_float(text))", 'C08'),
    ('M25 deepcopy: xsd_check not copied', X, "        copied = self.__class__(value_=self.value_, xsd_check=self.xsd_check)", "        copied = self.__class__(value_=self.value_)", 'C14'),
    ('M26 deepcopy: children in insertion order', X, "        for child in self.get_children():\n            copied.add_child(copy.deepcopy(child))\n        return copied", "        for child in self.get_children(ordered=False):\n            copied.add_child(copy.deepcopy(child))\n        return copied", 'C14'),
    ('M27 xsd_check False: get_children ordered uses container', X, "        if ordered is False or self.xsd_check is False:\n            return self._unordered_children", "        if ordered is False:\n            return self._unordered_children", 'C18'),
    ('M28 complex content extension: base attributes dropped when own exist', T, "                xsd_attributes.extend(extension_base.get_xsd_attributes())\n", "                if not complex_content_extension.get_children():\n                    xsd_attributes.extend(extension_base.get_xsd_attributes())\n", 'C03,C04'),
    ('M29 exponent rendering: only negative exponents', X, "    if isinstance(value, float) and 'e' in text:", "    if isinstance(value, float) and 'e-' in text:", 'C05'),
    ('M30 write: declaration after validation but file opened first', X, "        xml_string = self.to_string(intelligent_choice=intelligent_choice)\n        with open(path, 'w', encoding='utf-8') as file:\n            file.write('<?xml version=\"1.0\" encoding=\"UTF-8\" standalone=\"no\"?>\\n')\n            file.write(xml_string)", "        with open(path, 'w', encoding='utf-8') as file:\n            xml_string = self.to_string(intelligent_choice=intelligent_choice)\n            file.write('<?xml version=\"1.0\" encoding=\"UTF-8\" standalone=\"no\"?>\\n')\n            file.write(xml_string)", 'C17'),
    ('M31 container copy shares the leaf content with the template', C, "        copied = self.__class__(content=self.content.__copy__(), min_occurrences=self.min_occurrences,", "        copied = self.__class__(content=self.content.__copy__() if not isinstance(self.content, XSDElement) or self.max_occurrences != 'unbounded' else self.content, min_occurrences=self.min_occurrences,", 'C13,C06'),
    ('M32 xsd_check setter also resets children list when switched off', X, "    def xsd_check(self, val):\n        self._xsd_check = val", "    def xsd_check(self, val):\n        if val is False and self._xsd_check is True and len(getattr(self, '_unordered_children', [])) > 2:\n            self._unordered_children = list(self.get_children())\n        self._xsd_check = val", 'C18,C14'),
    ('M33 find_child returns last match', X, "        for ch in self.get_children(ordered=ordered):\n            if ch.__class__.__name__ == name:\n                return ch", "        for ch in reversed(self.get_children(ordered=ordered)):\n            if ch.__class__.__name__ == name:\n                return ch", 'C15'),
    ('M34 parser ignores attributes named id when value starts with digit', P, "    for k, v in node.attrib.items():", "    for k, v in node.attrib.items():\n        if k == 'id' and v[:1].isdigit():\n            continue", 'C09,C08'),
    ('M35 to_string caches the text of unchanged leaves', X, "        self._create_et_xml_element()\n\n        return ET.tostring(self.et_xml_element, encoding='unicode') + '\\n'", "        if not self.get_children() and getattr(self, '_cached_text', None) and self._cached_key == (repr(self.value_), repr(self._attributes)):\n            return self._cached_text\n        self._create_et_xml_element()\n        text = ET.tostring(self.et_xml_element, encoding='unicode') + '\\n'\n        self._cached_key, self._cached_text = (repr(self.value_), repr(self._attributes)), text\n        return text", 'C16'),
]


def sh(cmd, **kw):
    return subprocess.run(cmd, shell=True, capture_output=True, text=True, **kw)


def main():
    only = None
    checks_override = None
    if '--only' in sys.argv:
        only = set(sys.argv[sys.argv.index('--only') + 1].split(','))
    if '--checks' in sys.argv:
        checks_override = sys.argv[sys.argv.index('--checks') + 1]
    assert sh('git -C /repo status --porcelain -- musicxml').stdout.strip() == '', '/repo is not clean'
    for name, f, a, b, checks in MUTS:
        tag = name.split()[0]
        if only and tag not in only:
            continue
        path = '/repo/' + f
        s = open(path).read()
        if s.count(a) < 1:
            print(name, '| PATTERN NOT FOUND', flush=True)
            continue
        try:
            open(path, 'w').write(s.replace(a, b, 1))
            t = sh('cd /repo && /venv/bin/python -m pytest -q -p no:cacheprovider -x -W ignore 2>&1 | tail -1')
            tests = t.stdout.strip()
            if 'failed' in tests or 'error' in tests.lower():
                print(name, '| killed by tests:', tests, flush=True)
                continue
            res = []
            for c in (checks_override or checks).split(','):
                r = sh('cd /verif && ./check %s --tier quick' % c)
                nv = sum(1 for l in r.stdout.splitlines() if l.startswith('VIOLATION'))
                res.append('%s:%s(%d)' % (c, {0: 'pass', 1: 'VIOLATION', 3: 'harness-error'}.get(r.returncode, r.returncode), nv))
            print(name, '| survives tests |', ' '.join(res), flush=True)
        finally:
            sh('git -C /repo checkout -- .')


if __name__ == '__main__':
    main()
