#!/usr/bin/env python3
"""Developer command (never run by a check): merge reviewed violation keys dumped with
VERIF_DUMP_NEW=<file> into known_findings.json with a note.
usage: tools/merge_findings.py <dumpfile> "<note>" [--prop Cxx]"""
import json, sys, os
root = os.path.dirname(os.path.dirname(os.path.abspath(__file__)))
p = os.path.join(root, 'known_findings.json')
d = json.load(open(p)) if os.path.exists(p) else dict(known=[], fixed=[])
have = {e['key']: e for e in d['known']}
note = sys.argv[2]
prop = sys.argv[sys.argv.index('--prop') + 1] if '--prop' in sys.argv else None
n = 0
for line in open(sys.argv[1]):
    r = json.loads(line)
    if prop and not r['key'].startswith(prop + '|'):
        continue
    if r['key'] in have:
        if r['tier'] == 'quick' and have[r['key']].get('tier') == 'thorough':
            have[r['key']]['tier'] = 'quick'
        continue
    e = dict(key=r['key'], tier=r['tier'], note=note, observed=r.get('observed', ''))
    d['known'].append(e); have[r['key']] = e; n += 1
d['known'].sort(key=lambda e: e['key'])
json.dump(d, open(p, 'w'), indent=1, sort_keys=True)
print('added', n, 'total', len(d['known']))
