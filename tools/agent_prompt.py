#!/usr/bin/env python3
import json, sys
pid = sys.argv[1]
tag = sys.argv[2] if len(sys.argv) > 2 else pid
avoid = sys.argv[3] if len(sys.argv) > 3 else ''
wt = '/tmp/mut/' + tag
p = [json.loads(l) for l in open('/verif/properties.jsonl') if json.loads(l)['id'] == pid][0]
avoid_txt = ('IMPORTANT: an earlier experiment already used the following change; yours must be of a DIFFERENT kind, in a different function or mechanism: ' + avoid + '\n\n') if avoid else ''
print(f"""You are helping to evaluate a verification effort for the open-source Python library alexgorji/musicxml (a pure-Python MusicXML 4.0 builder and parser whose element classes are generated from the XSD and validated by an in-repo content-model matcher).

You have your own scratch git worktree of the repository at {wt} (detached HEAD). Work ONLY inside {wt}. Never read, write or run anything under /repo or /verif. Do not commit anything.

How to run things: `cd {wt} && /venv/bin/python -W ignore -c "import musicxml; print(musicxml.__file__)"` must print a path under {wt} (running python from the worktree root makes it import the worktree's copy). The pinned test suite is run with: `cd {wt} && /venv/bin/python -m pytest -q -p no:cacheprovider -x --timeout=900` (192 tests, about 10 s, all pass on the unmodified tree). There is no network.

The property under study ({pid}: {p['title']}):
STATEMENT: {p['statement']}
QUANTIFIED OVER: {p['quantifier']['text']}
WHY TESTS CANNOT SETTLE IT: {p['why_tests_cant']}
CODE IT IS ANCHORED IN: {', '.join(p['anchors']['files'])}

Your task: produce ONE realistic change (a plausible bug a maintainer could introduce while refactoring, optimising or "fixing" something: a few lines, not sabotage, no dead code, no special-casing of magic values) to the library source in {wt} such that
 1. the package still imports and the full pinned test suite above still passes (all 192 tests), and
 2. the property above is BROKEN by the change, but only in a way that needs something specific to manifest — for example an unusual input or element type, a multi-step sequence of operations, a particular order of calls, a failure at a particular point, or two cooperating code sites that each look fine alone. It must NOT be something that ordinary use of the library (building a simple score, the README examples) would expose at once.
 3. Note that the unmodified library already has some imperfections with respect to this property; your change must introduce a NEW violation: write a small demonstration program `demo.py` (plain Python, run as `cd {wt} && /venv/bin/python -W ignore demo.py`) that exits 0 ("property holds on this scenario") on the UNMODIFIED tree and exits 1 printing what went wrong on the MODIFIED tree. The demo must check the property's observable behaviour through the public API (add_child, remove, replace_child, xml_* / attribute assignment, to_string, write, parse_musicxml, copy.deepcopy, constructors ...), not internal fields.

Procedure: read the relevant code; design the change; verify on the unmodified tree that demo.py exits 0 (to switch between the unmodified and the modified tree save your change with `git diff > {wt}_change.diff`, revert with `git checkout -- .`, re-apply with `git apply {wt}_change.diff`, all inside your own worktree; NEVER use `git stash`: the stash is shared with other worktrees); apply the change; verify the test suite passes and demo.py exits 1. Iterate until all of that is confirmed by actually running it.

{avoid_txt}Deliverables (write them into {wt}/_seed/): `patch.diff` (output of `git diff` for the library change only, applicable with `git apply` at the repository root), `demo.py` (copy), and `meta.json` with keys: property ("{pid}"), summary (what the change is, 1-2 sentences), needs (what specific circumstances are needed for it to manifest), files (changed files), ran (the exact commands you ran and their observed results). Leave the worktree with the change applied. In your final answer, give a 5-line summary: the change, why tests still pass, what the demo does, and the confirmation results.""")
