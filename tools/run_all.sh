#!/bin/sh
# developer command: run every registered check of the given tier, print exit codes and summaries
TIER=${1:-quick}
cd "$(dirname "$0")/.."
for p in $(python3 -c "import json;print(' '.join(c['property_id'] for c in json.load(open('MANIFEST.json'))['checks']))"); do
  ./check $p --tier $TIER > /var/tmp/vfdev/$p.$TIER.out 2>&1; rc=$?
  echo "$p exit=$rc $(grep -v '^VIOLATION\|^  \|^KNOWN' /var/tmp/vfdev/$p.$TIER.out | tail -1 | cut -c1-200)"
done
