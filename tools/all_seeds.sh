#!/bin/sh
# tools/all_seeds.sh: every seed against the quick check of its own property (developer command; applies each patch to /repo and undoes it)
for d in /verif/seeded/*/; do
  t=$(basename $d); p=${t%%-*}
  out=$(/verif/tools/try_seed.sh $d $p 2>&1)
  echo "$t: $(echo "$out" | grep -E "demo on|passed|failed|exit=" | tr '\n' ' ' | cut -c1-200)"
done
