#!/bin/sh
# developer command: regenerate the `known` list of known_findings.json for one tier from scratch
# (every new key must be reviewed: see the dump file), keeping the `fixed` list.  usage: tools/regen_known.sh quick|thorough [props...]
TIER=${1:-quick}; shift
cd "$(dirname "$0")/.."
PROPS="$@"
[ -z "$PROPS" ] && PROPS=$(python3 -c "import json;print(' '.join(c['property_id'] for c in json.load(open('MANIFEST.json'))['checks']))")
DUMP=/var/tmp/vfdev/regen_$TIER.jsonl
rm -f $DUMP
python3 - "$TIER" $PROPS <<'PY'
import json, sys
tier = sys.argv[1]; props = sys.argv[2:]
d = json.load(open('known_findings.json'))
d['known'] = [e for e in d['known'] if not (e['key'].split('|')[0] in props and e.get('tier', 'quick') == tier)]
json.dump(d, open('known_findings.json', 'w'), indent=1, sort_keys=True)
PY
for p in $PROPS; do
  VERIF_DUMP_NEW=$DUMP ./check $p --tier $TIER > /var/tmp/vfdev/$p.$TIER.out 2>&1
  echo "$p exit=$? $(grep -v '^VIOLATION\|^  \|^KNOWN' /var/tmp/vfdev/$p.$TIER.out | tail -1 | cut -c1-200)"
done
[ -f $DUMP ] && for p in $PROPS; do
  NOTE=$(python3 -c "import json,sys;print(json.load(open('tools/notes.json')).get('$p','(unreviewed)'))")
  tools/merge_findings.py $DUMP "$NOTE" --prop $p | sed "s/^/$p: /"
done
