#!/bin/sh
exec "$(dirname "$0")/ensure_env.sh"
