#!/bin/sh
# Idempotent, offline: overlay venv of /venv's python 3.12 (which has /repo installed editable)
# plus z3-solver, cvc5, crosshair-tool from the local wheelhouse.  Called by setup.sh and by
# every check (a fresh checkout of /verif has no .venv).
set -e
HERE="$(cd "$(dirname "$0")" && pwd)"
VENV="$HERE/.venv"
STAMP="$VENV/.ok"
[ -f "$STAMP" ] && exit 0
mkdir -p "$HERE/.locks"
(
  flock 9
  [ -f "$STAMP" ] && exit 0
  rm -rf "$VENV"
  /venv/bin/python -m venv "$VENV" >/dev/null
  SP="$VENV/lib/python3.12/site-packages"
  echo "import site; site.addsitedir('/venv/lib/python3.12/site-packages')" > "$SP/_base.pth"
  PIP_NO_INDEX=1 "$VENV/bin/pip" install -q --no-index --find-links /opt/veriftools/wheels \
      z3-solver cvc5 crosshair-tool >/dev/null 2>"$HERE/.locks/pip.err" || {
        cat "$HERE/.locks/pip.err" >&2; exit 1; }
  "$VENV/bin/python" -c "import z3, cvc5, musicxml, crosshair"
  touch "$STAMP"
) 9>"$HERE/.locks/env.lock"
