"""Two separately written translators to z3 regular expressions over a finite alphabet SIGMA:
  xsd_to_z3(p)  -- XSD regular expressions (oracle side; own parser, XML 1.0 name tables, unicodedata)
  sre_to_z3(p)  -- Python `re` patterns (implementation side; walks re._parser's tree of the exact
                   pattern string the library computed)
Character classes become unions of the members of SIGMA that satisfy them, so results are exact
relative to SIGMA and say nothing about other characters.
"""
import re
import unicodedata
import z3
import re._parser as sre_parse
import re._constants as sre_c

# every ASCII letter/digit/punctuation that occurs in a pattern or enumeration literal of the
# schema, plus representatives of whitespace, Latin-1, non-ASCII digits/letters, non-BMP
_BASE = set('abcdefghijklmnopqrstuvwxyzABCDEFGHIJKLMNOPQRSTUVWXYZ0123456789 ,-._:#<>&"\']+/()')
_EXTRA = {'\t', '\n', '\u00a0', '\u2003', '\u00b7', '\u00e9', '\u0661', '\u3007'}
SIGMA = sorted(_BASE | _EXTRA)
# characters on which XML 1.0 4th and 5th edition name tables disagree are dropped from name classes
NAME_AMBIGUOUS = {'\U0001F3B5'}      # not in SIGMA: 4th edition has no supplementary planes


def lit(ch):
    return z3.Re(z3.StringVal(ch))


def cls(chars):
    chars = sorted(set(chars))
    if not chars:
        return z3.Empty(z3.ReSort(z3.StringSort()))
    rs = [lit(c) for c in chars]
    return rs[0] if len(rs) == 1 else z3.Union(*rs)


def rep(r, lo, hi):
    if hi is None:
        return z3.Star(r) if lo == 0 else z3.Plus(r) if lo == 1 else z3.Concat(z3.Loop(r, lo, lo), z3.Star(r))
    if (lo, hi) == (1, 1):
        return r
    if hi == 0:
        return z3.Re(z3.StringVal(''))
    return z3.Loop(r, lo, hi)


def cat(rs):
    rs = list(rs)
    return z3.Re(z3.StringVal('')) if not rs else rs[0] if len(rs) == 1 else z3.Concat(*rs)


def alt(rs):
    rs = list(rs)
    return rs[0] if len(rs) == 1 else z3.Union(*rs)


def sigma_star(sigma=None):
    return z3.Star(cls(sigma or SIGMA))


# ---------------------------------------------------------------- implementation side: Python sre
_CAT = {sre_c.CATEGORY_DIGIT: r'\d', sre_c.CATEGORY_SPACE: r'\s', sre_c.CATEGORY_WORD: r'\w',
        sre_c.CATEGORY_NOT_DIGIT: r'\D', sre_c.CATEGORY_NOT_SPACE: r'\S', sre_c.CATEGORY_NOT_WORD: r'\W'}


def sre_to_z3(pattern, sigma=None):
    sigma = sigma or SIGMA
    tree = sre_parse.parse(pattern)

    def member(items, ch):
        ok = False
        for op, av in items:
            if op is sre_c.LITERAL:
                ok |= (ord(ch) == av)
            elif op is sre_c.RANGE:
                ok |= (av[0] <= ord(ch) <= av[1])
            elif op is sre_c.CATEGORY:
                ok |= bool(re.fullmatch(_CAT[av], ch))
            elif op is sre_c.NEGATE:
                pass
            else:
                raise NotImplementedError(op)
        return ok

    def tr(seq):
        out = []
        items = list(seq)
        for idx, (op, av) in enumerate(items):
            if op is sre_c.LITERAL:
                out.append(lit(chr(av)) if chr(av) in sigma else cls([]))
            elif op is sre_c.NOT_LITERAL:
                out.append(cls([c for c in sigma if ord(c) != av]))
            elif op is sre_c.ANY:
                out.append(cls([c for c in sigma if c != '\n']))
            elif op is sre_c.IN:
                neg = any(o is sre_c.NEGATE for o, _ in av)
                out.append(cls([c for c in sigma if member(av, c) != neg]))
            elif op is sre_c.BRANCH:
                out.append(alt([tr(b) for b in av[1]]))
            elif op is sre_c.SUBPATTERN:
                out.append(tr(av[3]))
            elif op in (sre_c.MAX_REPEAT, sre_c.MIN_REPEAT):
                lo, hi, sub = av
                out.append(rep(tr(sub), lo, None if hi == sre_c.MAXREPEAT else hi))
            elif op is sre_c.AT:
                if av in (sre_c.AT_BEGINNING, sre_c.AT_BEGINNING_STRING):
                    if idx != 0:
                        out.append(cls([]))
                    continue
                if av is sre_c.AT_END_STRING:
                    if idx != len(items) - 1:
                        out.append(cls([]))
                    continue
                if av is sre_c.AT_END:
                    # `$` under fullmatch also matches before a trailing newline, which fullmatch
                    # then cannot consume: equivalent to end of string when last
                    if idx != len(items) - 1:
                        out.append(cls([]))
                    continue
                raise NotImplementedError(av)
            elif op is sre_c.CATEGORY:
                out.append(cls([c for c in sigma if member([(op, av)], c)]))
            else:
                raise NotImplementedError(op)
        return cat(out)
    return tr(tree)


# ---------------------------------------------------------------- oracle side: XSD regex
# XML 1.0 (5th edition) NameStartChar / NameChar
_NAMESTART = [(0x3a, 0x3a), (0x41, 0x5a), (0x5f, 0x5f), (0x61, 0x7a), (0xc0, 0xd6), (0xd8, 0xf6), (0xf8, 0x2ff),
              (0x370, 0x37d), (0x37f, 0x1fff), (0x200c, 0x200d), (0x2070, 0x218f), (0x2c00, 0x2fef),
              (0x3001, 0xd7ff), (0xf900, 0xfdcf), (0xfdf0, 0xfffd), (0x10000, 0xeffff)]
_NAMECHAR = _NAMESTART + [(0x2d, 0x2e), (0x30, 0x39), (0xb7, 0xb7), (0x300, 0x36f), (0x203f, 0x2040)]


def _in(ch, rs):
    o = ord(ch)
    return any(a <= o <= b for a, b in rs)


def esc_class(e, ch):
    if e == 'd':
        return unicodedata.category(ch) == 'Nd'
    if e == 'c':
        return _in(ch, _NAMECHAR) and ch not in NAME_AMBIGUOUS
    if e == 'i':
        return _in(ch, _NAMESTART) and ch not in NAME_AMBIGUOUS
    if e == 's':
        return ch in ' \t\n\r'
    if e == 'w':
        return unicodedata.category(ch)[0] not in 'PZC'
    raise NotImplementedError(e)


class _XP:
    def __init__(self, p, sigma):
        self.p = p
        self.i = 0
        self.sigma = sigma

    def peek(self):
        return self.p[self.i] if self.i < len(self.p) else None

    def eat(self):
        c = self.p[self.i]
        self.i += 1
        return c

    def regexp(self):
        bs = [self.branch()]
        while self.peek() == '|':
            self.eat()
            bs.append(self.branch())
        return alt(bs)

    def branch(self):
        ps = []
        while self.peek() is not None and self.peek() not in '|)':
            ps.append(self.piece())
        return cat(ps)

    def piece(self):
        a = self.atom()
        c = self.peek()
        if c == '*':
            self.eat()
            return rep(a, 0, None)
        if c == '+':
            self.eat()
            return rep(a, 1, None)
        if c == '?':
            self.eat()
            return rep(a, 0, 1)
        if c == '{':
            self.eat()
            t = ''
            while self.peek() != '}':
                t += self.eat()
            self.eat()
            if ',' in t:
                lo, hi = t.split(',')
                return rep(a, int(lo), int(hi) if hi else None)
            return rep(a, int(t), int(t))
        return a

    def atom(self):
        c = self.eat()
        if c == '(':
            r = self.regexp()
            assert self.eat() == ')'
            return r
        if c == '[':
            pred = self.charclass()
            return cls([ch for ch in self.sigma if pred(ch)])
        if c == '\\':
            e = self.eat()
            if e in 'dciws':
                return cls([ch for ch in self.sigma if esc_class(e, ch)])
            if e in 'DCIWS':
                return cls([ch for ch in self.sigma if not esc_class(e.lower(), ch)])
            ch = {'n': '\n', 't': '\t', 'r': '\r'}.get(e, e)
            return lit(ch) if ch in self.sigma else cls([])
        if c == '.':
            return cls([ch for ch in self.sigma if ch not in '\n\r'])
        return lit(c) if c in self.sigma else cls([])

    def charclass(self):
        neg = False
        if self.peek() == '^':
            self.eat()
            neg = True
        preds = []
        sub = None
        while True:
            c = self.eat()
            if c == ']':
                break
            if c == '-' and self.peek() == '[':
                self.eat()
                sub = self.charclass()
                assert self.eat() == ']'
                break
            if c == '\\':
                e = self.eat()
                if e in 'dciws':
                    preds.append(lambda ch, e=e: esc_class(e, ch))
                    continue
                if e in 'DCIWS':
                    preds.append(lambda ch, e=e: not esc_class(e.lower(), ch))
                    continue
                c = {'n': '\n', 't': '\t', 'r': '\r'}.get(e, e)
            if self.peek() == '-' and self.p[self.i + 1] not in '[]':
                self.eat()
                d = self.eat()
                if d == '\\':
                    d = self.eat()
                preds.append(lambda ch, a=c, b=d: ord(a) <= ord(ch) <= ord(b))
            else:
                preds.append(lambda ch, a=c: ch == a)

        def pred(ch):
            r = any(p(ch) for p in preds)
            if neg:
                r = not r
            if sub and sub(ch):
                r = False
            return r
        return pred


def xsd_to_z3(p, sigma=None):
    x = _XP(p, sigma or SIGMA)
    r = x.regexp()
    assert x.i == len(p), (p, x.i)
    return r


def xsd_match(p, s):
    """concrete matcher for XSD regex via the same parser: used only for replay oracles on
    concrete strings whose characters are all in sigma ∪ chars(s)"""
    sigma = sorted(set(SIGMA) | set(s))
    r = xsd_to_z3(p, sigma)
    sol = z3.Solver()
    sol.add(z3.InRe(z3.StringVal(s), r))
    return str(sol.check()) == 'sat'


def included(a, b, maxlen=12, sigma=None):
    """L(a) ∩ Σ^{<=maxlen} ⊆ L(b)?  returns None if yes, a witness string otherwise"""
    from .lang import unescape
    w = z3.String('w')
    s = z3.Solver()
    s.set('timeout', 60000)
    s.add(z3.InRe(w, a), z3.Not(z3.InRe(w, b)), z3.Length(w) <= maxlen)
    r = str(s.check())
    if r == 'sat':
        return unescape(s.model()[w].as_string())
    if r == 'unknown':
        raise RuntimeError('solver unknown (regex inclusion)')
    return None
