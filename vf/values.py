"""F2 value harness: the real validators run on symbolic ints / floats / strings (symx proxies);
every accepting path is asked for a value whose rendering is outside the type's lexical space,
every rejecting path for a value inside it."""
import collections
import math
import z3

from . import lib, symx, rx, lex, refmodel

F64 = z3.Float64()
MAXLEN = {'quick': 10, 'thorough': 14}
UNISPACE = [c for c in rx.SIGMA if c.isspace() and c not in ' \t\n\r']


class Shims:
    """intercepts installed in musicxml.xsd.xsdsimpletype for symbolic strings (part of the claim):
       re.compile(p).fullmatch(SymStr) -> z3 InRe with the pattern translated by Python's own parser tree;
       get_cleaned_token(SymStr) -> identity (inputs are assumed whitespace-normalised)."""

    def __enter__(self):
        import musicxml.xsd.xsdsimpletype as ST
        self.ST = ST
        self.saved = (ST.re, ST.get_cleaned_token)
        symx.SymPattern.translate = staticmethod(lambda p: rx.sre_to_z3(p))
        ST.re = symx.ReShim()
        orig = ST.get_cleaned_token

        def tok(v):
            if isinstance(v, symx.SymStr):
                return v
            return orig(v)
        ST.get_cleaned_token = tok
        self.math_mods = []
        import musicxml.xsd.xsdcomplextype as CT
        for mod in (ST, CT, lib.X()):
            if 'math' in vars(mod) and type(vars(mod)['math']).__name__ == 'module':
                self.math_mods.append((mod, mod.math))
                mod.math = symx.MathShim()
        X = lib.X()
        self.X = X
        self.had_decimal = hasattr(X, 'decimal')
        if self.had_decimal:
            self.saved_decimal = X.decimal
            X.decimal = symx.DecimalShim()
        return self

    def __exit__(self, *a):
        self.ST.re, self.ST.get_cleaned_token = self.saved
        for mod, real in self.math_mods:
            mod.math = real
        if self.had_decimal:
            self.X.decimal = self.saved_decimal


def base_constraints(kind, var, maxlen, ws):
    if kind == 'str':
        sig = [c for c in rx.SIGMA if c not in UNISPACE] if ws != 'preserve' else rx.SIGMA
        return [z3.InRe(var, z3.Intersect(rx.sigma_star(sig), lex.normalised_re(ws))), z3.Length(var) <= maxlen]
    return []


def make_proxy(kind, var, maxlen):
    if kind == 'int':
        return symx.SymInt(var)
    if kind == 'float':
        return symx.SymFloat(var)
    return symx.SymStr(var, maxlen)


def new_var(kind):
    return {'int': z3.Int('v'), 'float': z3.FP('v', F64), 'str': z3.String('v')}[kind]


def emitted_kind(obj, proxy):
    """how the library renders the accepted symbolic value in to_string(): 'verbatim' (the value's own str()),
    'positional' (format(Decimal(str(v)), 'f')), or Leak if the concrete shadow was used"""
    if not hasattr(obj, 'to_string'):
        return None
    saved = obj.xsd_check
    obj.xsd_check = False
    symx.SERIALISING = True
    try:
        out = obj.to_string()
    finally:
        obj.xsd_check = saved
        symx.SERIALISING = False
    sent = proxy.sent
    if sent in out:
        return 'verbatim'
    if getattr(proxy, 'sent_pos', None) and proxy.sent_pos in out:
        return 'positional'
    if isinstance(proxy, symx.SymStr) and not bool(proxy):
        return 'verbatim'          # the empty string is emitted as no text at all
    raise symx.Leak('emitted text does not contain the symbolic value: %r' % out[:80])


def explore(ctor, kind, ws, maxlen, max_paths=400):
    """run ctor(symbolic value) over all paths. returns (paths, engine, var); path = dict(verdict, exc, pc, decisions, render)"""
    var = new_var(kind)
    eng = symx.Engine(base=base_constraints(kind, var, maxlen, ws), path_timeout_s=20.0)
    symx.ENGINE = eng
    paths = []

    def harness(eng):
        v = make_proxy(kind, var, maxlen)
        try:
            obj = ctor(v)
            return ('accept', emitted_kind(obj, v), obj)
        except symx.Leak as e:
            return ('leak', str(e), None)
        except (symx.Abort, symx.PathTimeout):
            raise
        except Exception as e:
            from .hist import exc_info
            tn, where = exc_info(e)
            return ('reject' if tn in ('TypeError', 'ValueError') else 'error', '%s@%s' % (tn, where), None)
    with Shims():
        for decisions, res in eng.explore(harness, max_paths=max_paths):
            if res == ('TIMEOUT',):
                paths.append(dict(verdict='timeout', exc=None, pc=eng.path_condition(), decisions=decisions))
                continue
            verdict, exc, obj = res
            paths.append(dict(verdict=verdict, exc=exc, pc=eng.path_condition(), decisions=decisions))
    return paths, eng, var


def solve(base, pc, extra, var, kind, timeout=30000):
    s = z3.Solver()
    s.set('timeout', timeout)
    s.add(*base)
    s.add(*pc)
    s.add(*extra)
    r = str(s.check())
    if r == 'unknown':
        raise symx.SolverUnknown(s.reason_unknown())
    if r != 'sat':
        return None
    return canonical(s, var, kind)


def canonical(s, var, kind):
    """a canonical model so that findings are keyed stably: ints closest to zero, floats from a fixed
    candidate list first, strings shortest then least in SIGMA order"""
    if kind == 'int':
        for cand in (0, 1, -1, 2, -2, 10, 100, 1000):
            s.push()
            s.add(var == cand)
            ok = str(s.check()) == 'sat'
            s.pop()
            if ok:
                return cand
        lo = None
        # minimise |v| by doubling + bisection on non-negative side, then negative
        for sign in (1, -1):
            bound = 1
            while bound < 10 ** 12:
                s.push()
                s.add(var * sign >= 0, var * sign <= bound)
                ok = str(s.check()) == 'sat'
                if ok:
                    m = s.model().eval(var, model_completion=True).as_long()
                    s.pop()
                    # tighten
                    best = m
                    while True:
                        s.push()
                        s.add(var * sign >= 0, var * sign < abs(best))
                        if str(s.check()) == 'sat':
                            best = s.model().eval(var, model_completion=True).as_long()
                            s.pop()
                        else:
                            s.pop()
                            break
                    return best
                s.pop()
                bound *= 1000
        return s.model().eval(var, model_completion=True).as_long()
    if kind == 'float':
        for cand in (0.0, 1.0, -1.0, 0.5, float('nan'), float('inf'), float('-inf'), 1e-05, -1e-05, 1e16, -1e16, 1e22,
                     100.5, -100.5, 1e-07, 200.0, -200.0, 17.0, 129.0, 16385.0):
            s.push()
            s.add(z3.fpIsNaN(var) if cand != cand else z3.fpEQ(var, z3.FPVal(cand, F64)))
            if cand == 0.0:
                s.add(z3.Not(z3.fpIsNegative(var)))
            ok = str(s.check()) == 'sat'
            s.pop()
            if ok:
                return cand
        return symx.fp_to_float(s.model().eval(var, model_completion=True))
    # strings: shortest length, then smallest characters position by position
    L = None
    for n in range(0, 40):
        s.push()
        s.add(z3.Length(var) == n)
        ok = str(s.check()) == 'sat'
        if ok:
            L = n
            break
        s.pop()
    if L is None:
        return lib.lang.unescape(s.model().eval(var, model_completion=True).as_string())
    out = ''
    order = sorted(rx.SIGMA, key=lambda c: (not c.isalnum(), c))
    for i in range(L):
        m = lib.lang.unescape(s.model().eval(var, model_completion=True).as_string())
        chosen = m[i]
        for ch in order:
            if ch == chosen:
                break
            s.push()
            s.add(z3.SubString(var, i, 1) == z3.StringVal(ch))
            ok = str(s.check()) == 'sat'
            if ok:
                chosen = ch
                s.pop()
                break
            s.pop()
        s.add(z3.SubString(var, i, 1) == z3.StringVal(chosen))
        if str(s.check()) != 'sat':
            raise RuntimeError('canonicalisation lost satisfiability')
        out += chosen
    s.pop()
    return out


def ok_formula(L, kind, var, upper):
    if kind == 'int':
        return L.int_ok(var, upper)
    if kind == 'float':
        return L.fp_ok(var, upper)
    return L.str_ok(var, upper)


def invalid_classes(L, kind, var, render=None):
    """partition of 'rendering not valid for T' into stable classes: [(label, formula)] or None if undecided.
    render: None (value space only: simple-type level), 'verbatim' (repr lemma) or 'positional'"""
    f = ok_formula(L, kind, var, True)
    if f is None:
        return None
    if kind == 'float':
        dec = [L] if L.kind == 'decimal' else [m for m in L.members if m.kind == 'decimal'] if L.kind == 'union' else []
        if len(dec) == 1:
            cl = dec[0].fp_classes(var)
            if render != 'verbatim':
                cl = [(lab, g) for lab, g in cl if 'exponent' not in lab]
            if L.kind == 'union':
                others = [m.fp_ok(var, True) for m in L.members if m.kind != 'decimal']
                if any(o is None for o in others):
                    return None
                return [(lab, z3.And(g, z3.Not(z3.Or(others)) if others else g)) for lab, g in cl]
            return cl
    if kind == 'int' and L.kind in ('decimal', 'integer'):
        out = []
        for k, v in L._bounds():
            num, den = v.numerator, v.denominator
            inb = {'minInclusive': var * den >= num, 'minExclusive': var * den > num, 'maxInclusive': var * den <= num,
                   'maxExclusive': var * den < num}[k]
            out.append(('violates-%s-%s' % (k, v), z3.Not(inb)))
        return out
    return [('invalid', z3.Not(f))]


def matching_kind(L, kind):
    """is `kind` the python kind in which valid values of the type are offered?"""
    def kinds(l):
        if l.kind == 'union':
            out = set()
            for m in l.members:
                out |= kinds(m)
            return out
        return {'integer': {'int'}, 'decimal': {'int', 'float'}}.get(l.kind, {'str'})
    return kind in kinds(L)


def render(v):
    """the text the library emits for an accepted value: str(v) (XMLElement._create_et_xml_element)"""
    return str(v)


def spot_check_float_lemma(x):
    """CPython lemma used by Lex.fp_ok, checked on every float model: repr is exponent-free iff x == 0 or 1e-4 <= |x| < 1e16"""
    if x != x or x in (float('inf'), float('-inf')):
        return repr(x) in ('nan', 'inf', '-inf')
    expfree = 'e' not in repr(x)
    return expfree == (x == 0 or 1e-4 <= abs(x) < 1e16)
