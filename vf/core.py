"""Shared driver: work-unit pool, known findings, replay, evidence, exit codes.

A property module (vf/props/cXX.py) provides
  LEVEL            evidence level string
  units(tier)      -> list of picklable unit descriptors
  run_unit(unit, tier, seed) -> dict(stats=Counter-like, cands=[candidate], samples=[...], funcs=[...],
                                     nontrivial=int, evaluations=int, notes=[...])
  replay(witness)  -> (reproduced: bool, observed: str)      # real code, no proxies/intercepts
  reduce(cand)     -> cand   (optional; 1-minimal witness with the same failure kind)
  describe()       -> dict(rule=..., assumptions=[...], bounds=..., functions=[...])
candidate = dict(cls=..., kind=..., witness=<json-able>, detail=str)
"""
import collections
import hashlib
import json
import multiprocessing as mp
import os
import subprocess
import sys
import time
import traceback

ROOT = os.path.dirname(os.path.dirname(os.path.abspath(__file__)))
EXIT_OK, EXIT_VIOLATION, EXIT_HARNESS = 0, 1, 3
NPROC = int(os.environ.get('VERIF_NPROC', '0')) or min(16, os.cpu_count() or 4)


def key_of(prop, cand):
    return '%s|%s|%s|%s' % (prop, cand['cls'], cand['kind'], json.dumps(cand['witness'], sort_keys=True,
                                                                       separators=(',', ':')))


def load_known():
    p = os.path.join(ROOT, 'known_findings.json')
    if not os.path.exists(p):
        return {}, []
    with open(p) as f:
        d = json.load(f)
    known = {}
    for e in d.get('known', []):
        known[e['key']] = e
    return known, d.get('fixed', [])


def _worker(args):
    modname, unit, tier, seed = args
    import importlib
    mod = importlib.import_module(modname)
    t = time.time()
    try:
        r = mod.run_unit(unit, tier, seed)
        r['unit'] = unit if isinstance(unit, (str, int)) else repr(unit)
        r['wall'] = time.time() - t
        return r
    except BaseException as e:       # harness error inside a unit: reported, never a pass
        return dict(unit=repr(unit), error='%s: %s\n%s' % (type(e).__name__, e, traceback.format_exc()),
                    wall=time.time() - t)


def run_pool(modname, units, tier, seed, nproc=None):
    nproc = nproc or NPROC
    jobs = [(modname, u, tier, seed) for u in units]
    if seed:
        k = seed % max(1, len(jobs))
        jobs = jobs[k:] + jobs[:k]       # seed only rotates scheduling order
    if nproc <= 1 or len(jobs) <= 1:
        return [_worker(j) for j in jobs]
    ctx = mp.get_context('fork')
    import importlib
    fresh = getattr(importlib.import_module(modname), 'FRESH_PROCESS_PER_UNIT', True)   # units never share library state
    with ctx.Pool(nproc, maxtasksperchild=1 if fresh else None) as pool:
        return list(pool.imap_unordered(_worker, jobs, chunksize=1))


def replay_subprocess(prop, witnesses, timeout=600):
    """re-execute witnesses in a fresh interpreter without proxies; returns list of (reproduced, observed)"""
    if not witnesses:
        return []
    py = sys.executable
    inp = json.dumps(witnesses)
    p = subprocess.run([py, '-W', 'ignore', '-m', 'vf.core', '--replay-batch', prop], input=inp, text=True,
                       capture_output=True, cwd=ROOT, timeout=timeout,
                       env=dict(os.environ, PYTHONDONTWRITEBYTECODE='1'))
    if p.returncode != 0:
        raise RuntimeError('replay subprocess failed: ' + p.stderr[-2000:])
    line = [l for l in p.stdout.splitlines() if l.startswith('@@RESULT ')][-1]
    return json.loads(line[len('@@RESULT '):])


def _replay_batch_main(prop):
    import importlib
    mod = importlib.import_module('vf.props.' + prop.lower())
    wit = json.loads(sys.stdin.read())
    out = []
    for w in wit:
        try:
            ok, obs = mod.replay(w)
        except BaseException as e:
            ok, obs = False, 'replay crashed: %s: %s' % (type(e).__name__, e)
        out.append([bool(ok), str(obs)[:500]])
    print('@@RESULT ' + json.dumps(out))


def main(prop, tier, seed, replay_path=None):
    import importlib
    t0 = time.time()
    modname = 'vf.props.' + prop.lower()
    mod = importlib.import_module(modname)
    if replay_path:
        with open(replay_path) as f:
            rec = json.load(f)
        ok, obs = replay_subprocess(prop, [rec['candidate']])[0]
        print(('REPRODUCED' if ok else 'NOT-REPRODUCED') + ' property=%s %s' % (prop, obs))
        return EXIT_VIOLATION if ok else EXIT_OK
    units = mod.units(tier)
    results = run_pool(modname, units, tier, seed)
    errors = [r for r in results if 'error' in r]
    stats = collections.Counter()
    cands, samples, funcs, notes = [], [], set(), []
    nontrivial = evaluations = 0
    per_unit = {}
    for r in sorted([r for r in results if 'error' not in r], key=lambda r: str(r['unit'])):
        for k, v in r.get('stats', {}).items():
            stats[k] += v
        cands.extend(r.get('cands', []))
        samples.extend(r.get('samples', [])[:2])
        funcs.update(r.get('funcs', []))
        notes.extend(r.get('notes', []))
        nontrivial += r.get('nontrivial', 0)
        evaluations += r.get('evaluations', 0)
        per_unit[str(r['unit'])] = dict(r.get('bounds', {}), wall_s=round(r['wall'], 2),
                                        paths=r.get('stats', {}).get('paths', 0))
    # ---- candidates -> reduce -> dedupe -> replay in fresh interpreter -> known / violation
    known, fixed = load_known()
    uniq = {}
    for c in cands:
        uniq.setdefault(key_of(prop, c), c)
    keys = sorted(uniq)
    reproduced = {}
    harness_errors = [e['error'] for e in errors]
    B = 40
    unverified = []
    if getattr(mod, 'REPLAY_ONE_PER_PROCESS', False):
        # each replay needs its own interpreter: confirm the known ones and at most 60 others; the rest is reported as a count
        others = [k for k in keys if k not in known]
        if len(others) > 60:
            unverified = others[60:]
            keys = [k for k in keys if k in known or k in set(others[:60])]
    for i in range(0, len(keys), B):
        chunk = keys[i:i + B]
        if getattr(mod, 'REPLAY_ONE_PER_PROCESS', False):
            res = [replay_subprocess(prop, [uniq[k]])[0] for k in chunk]
        else:
            res = replay_subprocess(prop, [uniq[k] for k in chunk])
        for k, (ok, obs) in zip(chunk, res):
            if not ok:      # retry alone in its own interpreter
                ok, obs = replay_subprocess(prop, [uniq[k]])[0]
            reproduced[k] = (ok, obs)
    violations, known_hit, not_repro = [], [], []
    for k in keys:
        ok, obs = reproduced[k]
        if not ok:
            not_repro.append((k, obs))
        elif k in known:
            known_hit.append(k)
        else:
            violations.append(k)
    os.makedirs(os.path.join(ROOT, 'replays', prop), exist_ok=True)
    for k in known_hit:
        c = uniq[k]
        print('KNOWN-FINDING: property=%s %s %s %s' % (prop, c['cls'], c['kind'], json.dumps(c['witness'])[:300]))
    for k in violations:
        c = uniq[k]
        path = os.path.join(ROOT, 'replays', prop, hashlib.sha1(k.encode()).hexdigest()[:16] + '.json')
        with open(path, 'w') as f:
            json.dump(dict(property=prop, key=k, candidate=c, observed=reproduced[k][1]), f, indent=1)
        print('VIOLATION property=%s replay=%s' % (prop, path))
        print('  ' + c['cls'] + ' ' + c['kind'] + ' ' + json.dumps(c['witness'])[:400] + ' :: ' + str(c.get('detail', ''))[:300])
    if os.environ.get('VERIF_DUMP_NEW'):      # developer aid only: never read back by a check
        with open(os.environ['VERIF_DUMP_NEW'], 'a') as f:
            for k in violations:
                f.write(json.dumps(dict(key=k, tier=tier, observed=reproduced[k][1][:200])) + '\n')
    if unverified:
        print('NOTE: %d further candidate violations were not replayed (only the first 60 are confirmed in separate interpreters)' % len(unverified))
    for k, obs in not_repro:
        harness_errors.append('counterexample did not reproduce on the real code: %s :: %s' % (k[:300], obs))
    missing = sorted(k for k in known if k.startswith(prop + '|') and k not in known_hit
                     and known[k].get('tier', 'quick') in ('quick', tier))
    d = mod.describe() if hasattr(mod, 'describe') else {}
    wall = time.time() - t0
    cov = dict(
        evaluations=int(evaluations), distinct_nontrivial=int(nontrivial),
        rule=d.get('rule', ''), samples=samples[:10] or [dict(note='no samples')],
        states=int(max(1, stats.get('states', 0) or stats.get('paths', 0) or evaluations)), transitions=int(max(1, stats.get('paths', 0) or evaluations)),
        traces_validated_against_impl=int(stats.get('paths', 0) or evaluations),
        programs=int(d.get('programs', len(units))), disagreements_checked=int(len(keys)),
        explanation=d.get('explanation', d.get('rule', '')),
        exhaustive=bool(stats.get('truncated_units', 0) == 0 and d.get('exhaustive_within_bounds', False)),
        functions_encoded=sorted(set(d.get('functions', [])) | funcs)[:400],
        bounds=d.get('bounds', {}), per_unit=per_unit if len(per_unit) <= 500 else {'units': len(per_unit)},
        solver=dict(calls=int(stats.get('solver_calls', 0)), sat=int(stats.get('solver_sat', 0)),
                    unsat=int(stats.get('solver_unsat', 0)), unknown=int(stats.get('solver_unknown', 0)),
                    closure_queries=int(stats.get('closures', 0)), seconds=round(float(stats.get('solver_s', 0)), 3),
                    oracle_queries={k: int(v) for k, v in stats.items() if k.startswith(('oracle.', 'member.', 'parikh.', 'arrange.', 'equiv.'))},
                    z3=_z3v()),
        paths=dict(completed=int(stats.get('paths', 0)), aborted_infeasible=int(stats.get('aborted', 0)),
                   inconclusive_leaks=int(stats.get('leaks', 0)), timeouts=int(stats.get('timeouts', 0)),
                   truncated_units=int(stats.get('truncated_units', 0))),
        counters={k: (int(v) if float(v).is_integer() else round(v, 3)) for k, v in stats.items()},
        counterexamples=dict(found=len(cands), distinct=len(keys), reproduced=len(keys) - len(not_repro),
                             known_findings_matched=len(known_hit), violations=len(violations)),
        known_findings_not_reproduced=missing[:2000],
        repo=_repo_version(), units=len(units), unit_errors=len(errors), notes=notes[:40],
    )
    ev = dict(property_id=prop, tier=tier, seed=int(seed), level=mod.LEVEL, coverage=cov,
              assumptions=d.get('assumptions', []), wall_s=round(wall, 2), violations=len(violations))
    os.makedirs(os.path.join(ROOT, 'evidence'), exist_ok=True)
    with open(os.path.join(ROOT, 'evidence', prop + '.json'), 'w') as f:
        json.dump(ev, f, indent=1, sort_keys=True, default=str)
    print('%s tier=%s units=%d paths=%d evaluations=%d nontrivial=%d solver_calls=%d (unsat %d) cands=%d distinct=%d '
          'known=%d violations=%d wall=%.1fs' % (prop, tier, len(units), stats.get('paths', 0), evaluations, nontrivial,
                                                 stats.get('solver_calls', 0), stats.get('solver_unsat', 0), len(cands),
                                                 len(keys), len(known_hit), len(violations), wall))
    if violations:
        return EXIT_VIOLATION
    if harness_errors:
        for e in harness_errors[:10]:
            print('HARNESS-ERROR: ' + e[:3000], file=sys.stderr)
        return EXIT_HARNESS
    return EXIT_OK


def _z3v():
    try:
        import z3
        return z3.get_version_string()
    except Exception:
        return '?'


def _repo_version():
    from . import lib
    return lib.repo_version()


if __name__ == '__main__':
    if len(sys.argv) >= 3 and sys.argv[1] == '--replay-batch':
        _replay_batch_main(sys.argv[2])
        sys.exit(0)
    import argparse
    ap = argparse.ArgumentParser()
    ap.add_argument('prop')
    ap.add_argument('--tier', default=os.environ.get('VERIF_TIER', 'quick'))
    ap.add_argument('--replay')
    a = ap.parse_args()
    seed = int(os.environ.get('VERIF_SEED', '0') or 0)
    sys.exit(main(a.prop.upper(), a.tier, seed, a.replay))
