"""C15 — shortcut syntax is equivalent to the explicit API.  Differential exploration: every explored
history is executed twice on the real code, once with the xml_* dot assignments and once with the
explicit find_child / replace_child / add_child / remove / value_ calls they abbreviate; outcomes of
every step and the final serialisation (children carry serial marks) must agree.  Reads: e.xml_x is the
child find_child returns, e.attr the stored value or None, never an exception for schema names."""
import collections
from .. import lib, hist, f1, docs, refmodel, words

LEVEL = f1.LEVEL
KINDS = ['ADD', 'ADDF', 'REMOVE', 'DOTSET', 'DOTVAL', 'DOTNONE']


def units(tier):
    return f1.all_units()


class ExplicitWorld(hist.World):
    explicit = True


def run_explicit(name, ops):
    w = ExplicitWorld(name)
    for op in ops:
        w.apply(list(op))
    return w


def final(w):
    s = hist.snapshot(w)
    return dict(text=s['text'], exc=s.get('exc'), missing=s.get('missing'), unordered=w.names(w.e.get_children(ordered=False)))


def reads(w):
    """shortcut reads on the final element: problems as list"""
    e = w.e
    out = []
    for a in w.alphabet[:12]:
        try:
            got = getattr(e, lib.dot_name(a))
        except Exception as ex:
            out.append('reading %s raises %s' % (lib.dot_name(a), type(ex).__name__))
            continue
        exp = e.find_child(lib.class_name(a))
        if got is not exp:
            out.append('%s is not the child find_child returns' % lib.dot_name(a))
    tn, c, st = lib.type_of(w.name)
    for a in (c['attrs'] if c else [])[:12]:
        if ':' in a['name'] or a['name'] == 'name':
            continue
        try:
            got = getattr(e, docs.py_attr(a['name']))
        except Exception as ex:
            out.append('reading attribute %s raises %s' % (a['name'], type(ex).__name__))
            continue
        if got != e.attributes.get(a['name']):
            out.append('attribute %s reads %r, stored %r' % (a['name'], got, e.attributes.get(a['name'])))
    return out


def judge(w):
    if not any(s.op[0].startswith('DOT') for s in w.steps):
        w.nontrivial = False
        r = reads(w)
        return [('shortcut-read-differs', r[0])] if r else []
    ops = [s.op for s in w.steps]
    x = run_explicit(w.name, ops)
    for i, (a, b) in enumerate(zip(w.steps, x.steps)):
        if a.ok != b.ok or (not a.ok and a.exc != b.exc and not (a.exc == 'AttributeError' or b.exc == 'AttributeError')):
            return [('shortcut-and-explicit-call-disagree', 'step %d %s: shortcut %s, explicit %s' % (i, a.op, 'ok' if a.ok else a.exc, 'ok' if b.ok else b.exc))]
    fa, fb = final(w), final(x)
    if fa != fb:
        diff = [k for k in fa if fa[k] != fb[k]]
        return [('shortcut-and-explicit-result-differ', 'differs in %s: shortcut %s explicit %s' % (diff, {k: fa[k] for k in diff}, {k: fb[k] for k in diff}))]
    r = reads(w)
    return [('shortcut-read-differs', r[0])] if r else []


def judge_concrete(name, ops, extra):
    return judge(hist.run_ops(name, ops))


def prefixes(name, tier):
    """states worth starting from: valid words with a repeated name (same-named children in different leaves)"""
    m = lib.content_model(name)
    A = hist.reduced_alphabet(name) if tier == 'quick' else m.names
    ws, complete, _ = words.by_length(m, A, 4, 400)
    rep = [w for w in ws if len(w) >= 3 and len(set(w)) < len(w)]
    rep.sort(key=lambda w: (-len(w), w))
    return [[['ADD', a] for a in w] for w in rep[:3 if tier == 'quick' else 12]]


def attribute_reads(name):
    """e.attr must return the stored value, also when that value is falsy (0, 0.0, ''), and None only when nothing is stored"""
    from .. import lex
    found = []
    tn, c, st = lib.type_of(name)
    n = 0
    for a in (c['attrs'] if c else []):
        if ':' in a['name'] or a['name'] == 'name' or a.get('fixed'):
            continue
        L = lex.Lex(refmodel.attr_type(lib.MODEL, a))
        py = docs.py_attr(a['name'])
        for v in (0, 0.0, '', lib.sample_for(refmodel.attr_type(lib.MODEL, a))):
            if v is None or not L.valid_text(docs.render_value(v), False):
                continue
            with lib.Capture():
                try:
                    e = lib.make(name)
                    setattr(e, py, v)
                    got = getattr(e, py)
                except Exception:
                    continue
            if got is None or got != v:
                found.append(('shortcut-read-differs', 'attribute %s: stored %r, e.%s reads %r' % (a['name'], v, py, got)))
                break
        n += 1
        if n >= 4 or found:
            break
    return found


BAD_VALUES = [[], 'no such \u00a7 value', -10 ** 9, 1.5]


def attribute_writes(name):
    """(session 2) overwriting a stored attribute by dot assignment: (a) a rejected value must raise and leave the stored
    attributes exactly as they were; (b) an accepted overwrite must give the same attribute dictionary (same order) and the
    same serialisation as the explicit dictionary updates e.attributes[k] = v in the same order"""
    found = []
    tn, c, st = lib.type_of(name)
    usable = []
    for a in (c['attrs'] if c else []):
        if ':' in a['name'] or a['name'] == 'name' or a.get('fixed'):
            continue
        v = lib.sample_for(refmodel.attr_type(lib.MODEL, a))
        if v is None:
            continue
        py = docs.py_attr(a['name'])
        with lib.Capture():
            try:
                setattr(lib.make(name), py, v)
            except Exception:
                continue
        usable.append((a['name'], py, v))
        if len(usable) >= 3:
            break
    if not usable:
        return found

    def text(e):
        try:
            return e.to_string()
        except Exception as ex:
            return 'raises ' + type(ex).__name__

    with lib.Capture():
        # (a) rejected overwrite
        h1, p1, v1 = usable[0]
        for bad in BAD_VALUES:
            try:
                setattr(lib.make(name), p1, bad)
                continue            # accepted on a fresh element: not a rejected value for this attribute
            except Exception:
                pass
            e = lib.make(name)
            for h, p, v in usable:
                setattr(e, p, v)
            before = (list(e.attributes.items()), text(e))
            try:
                setattr(e, p1, bad)
                raised = False
            except Exception:
                raised = True
            after = (list(e.attributes.items()), text(e))
            if not raised:
                found.append(('rejected-value-accepted-as-overwrite', 'attribute %s: %r is refused on a fresh element but accepted over %r' % (h1, bad, v1)))
            elif after != before:
                found.append(('failed-attribute-assignment-changed-element', 'attribute %s = %r raised, attributes %r -> %r' % (h1, bad, before[0], after[0])))
            break
        # (b) accepted overwrite against the explicit dictionary route
        if len(usable) >= 2 and not found:
            order = usable + [usable[0]]
            e = lib.make(name)
            x = lib.make(name)
            for h, p, v in order:
                setattr(e, p, v)
                x.attributes[h] = v
            if list(e.attributes.items()) != list(x.attributes.items()) or text(e) != text(x):
                found.append(('shortcut-overwrite-differs-from-dictionary-update', 'after %s: shortcut %r / %s, dictionary %r / %s' % (
                    [h for h, _, _ in order], list(e.attributes.items()), text(e)[:80], list(x.attributes.items()), text(x)[:80])))
    return found


def run_unit(name, tier, seed):
    red = hist.reduced_alphabet(name)
    full = lib.content_model(name).names
    A = red if tier == 'quick' else full
    passes = [dict(kinds_by_depth=lambda d: KINDS if d <= 2 else ['ADD', 'REMOVE', 'DOTSET', 'DOTVAL', 'DOTNONE'], D=8,
                   budget=2000 if tier == 'quick' else 25000, alphabet=A),
              dict(kinds=['REMOVE', 'ADD', 'DOTSET', 'DOTVAL', 'DOTNONE'], D=3, budget=3000 if tier == 'quick' else 20000, alphabet=A,
                   prefixes=prefixes(name, tier))]
    r = f1.multi(name, passes, judge, judge_concrete)
    for kind, detail in attribute_reads(name):
        r['cands'].append(dict(cls=name, kind=kind, witness=dict(attribute_read=detail.split(':')[0]), detail=detail))
    for kind, detail in attribute_writes(name):
        r['cands'].append(dict(cls=name, kind=kind, witness=dict(attribute_write=kind), detail=detail))
    return r


def replay(c):
    if 'attribute_read' in c['witness']:
        for k, d in attribute_reads(c['cls']):
            if k == c['kind'] and d.split(':')[0] == c['witness']['attribute_read']:
                return True, d
        return False, 'attribute reads return the stored values'
    if 'attribute_write' in c['witness']:
        for k, d in attribute_writes(c['cls']):
            if k == c['kind']:
                return True, d
        return False, 'overwriting an attribute behaves like the dictionary update'
    if c['kind'] == 'hang':
        return (True, 'exceeded 30 s again') if hist.hangs(c['cls'], c['witness']['ops']) else (False, 'finished within the limit')
    for k, d in judge_concrete(c['cls'], c['witness']['ops'], c['witness']):
        if k == c['kind']:
            return True, d
    return False, 'shortcut and explicit API agree'


def describe():
    return dict(
        rule='breadth-first exploration of reachable states (as C01) over ADD / forward ADD / REMOVE / xml_x = child / xml_x = value / xml_x = None, '
             'plus a second pass starting from valid words with repeated names; every history containing a shortcut is re-executed with the explicit '
             'calls; per class also: attribute reads of falsy values, and overwriting a stored attribute by dot assignment (a refused value '
             'must leave the attributes unchanged; an accepted one must equal the e.attributes[k] = v route in order and text); '
             'non-trivial = histories with at least one shortcut',
        functions=['xmlelement/xmlelement.py:XMLElement.__setattr__', 'XMLElement.__getattr__', 'XMLElement._convert_attribute_to_child',
                   'XMLElement._set_attributes', 'XMLElement.find_child', 'XMLElement.replace_child', 'XMLElement.add_child', 'XMLElement.remove'],
        bounds=dict(exploration='depth <= 8, budget 2000+3000 quick / 25000+20000 thorough per class', outside='attribute shortcuts vs constructor keywords are compared in C04'),
        assumptions=['the explicit counterpart of e.xml_x = v is find_child + replace_child / add_child / remove / value_ as documented',
                     'e.xml_x is compared with find_child (insertion order), not with serialisation order, which the statement leaves open'],
        exhaustive_within_bounds=True)
