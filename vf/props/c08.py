"""C08 — the library's own output re-parses to the same document.
Documents are generated from the pinned reference model (child words from the solver-checked word
sets, values = z3 models of the lexical spaces at their bounds / pattern lengths / literals), built
through the real API, written, read back by the real parser, re-serialised twice."""
import collections
import json
import xml.etree.ElementTree as ET

from .. import lib, docs, words, lang, refmodel, hist, lex

LEVEL = 'model_checking'
LIMITS = {'quick': dict(words=10, wordlen=3, values=6, attr_values=3), 'thorough': dict(words=150, wordlen=4, values=10, attr_values=6)}


# floats whose repr uses an exponent (tiny and huge magnitudes): the writer has its own code path for them
EXTRA_FLOATS = [7.1234e-06, 1.2345678e-05, -2.5e-07, 1.25e+16]


def extra_floats(T):
    if T is None or T['kind'] != 'decimal':
        return []
    L = lex.Lex(T)
    return [v for v in EXTRA_FLOATS if L.valid_text(docs.render_value(v), True)]


def units(tier):
    return sorted(lib.MODEL['elements'])


def variants(name, tier):
    lim = LIMITS[tier]
    out = [('minimal', docs.minimal(name))]
    m = lib.content_model(name)
    if m is not None:
        A = hist.reduced_alphabet(name) if tier == 'quick' else m.names
        ws, complete, _ = words.by_length(m, A, lim['wordlen'], lim['words'] * 4)
        ws = [w for w in ws if w]
        # spread over lengths
        ws.sort(key=lambda w: (-len(w), w))
        for w in ws[:lim['words']]:
            out.append(('word:' + ','.join(w), docs.with_word(name, w)))
    tn, c, st = lib.type_of(name)
    if st is not None:
        for v in docs.representatives(st, lim['values']):
            s = docs.minimal(name)
            s['value'] = v
            out.append(('value:%r' % (v,), s))
        for v in extra_floats(st):
            s = docs.minimal(name)
            s['value'] = v
            out.append(('value:%r' % (v,), s))
    if c:
        nd = 0
        for a in c['attrs']:
            T = refmodel.attr_type(lib.MODEL, a)
            vals = [a['fixed']] if a.get('fixed') else docs.representatives(T, lim['attr_values'])
            for v in vals[:lim['attr_values']]:
                s = docs.minimal(name)
                s['attrs'][a['name']] = v
                out.append(('attr:%s=%r' % (a['name'], v), s))
            if not a.get('fixed') and nd < 2 and extra_floats(T):
                nd += 1
                for v in extra_floats(T):
                    s = docs.minimal(name)
                    s['attrs'][a['name']] = v
                    out.append(('attr:%s=%r' % (a['name'], v), s))
    return out


def judge_spec(spec):
    """-> (status, findings)   status: 'ok' | 'not-built:<exc>'"""
    try:
        with lib.Capture():
            e = docs.build_api(spec)
            text1 = e.to_string()
    except Exception as ex:
        return 'not-built:' + type(ex).__name__, []
    # the written value is the value that was stored (names and order of what is written are C04's and C02's matter)
    root1, ref = ET.fromstring(text1), docs.to_et(spec)
    if spec['value'] is not None and not docs.same_text(root1.text, ref.text, docs.elem_type(spec['name'])):
        return 'ok', [('written-value-differs-from-stored', 'stored %r, written %r' % (spec['value'], root1.text))]
    at = docs.attr_types(spec['name'])
    for k, v in ref.attrib.items():
        if k in root1.attrib and not docs.same_text(root1.attrib[k], v, at.get(docs.qname(k)), exact=True):
            return 'ok', [('written-value-differs-from-stored', '@%s stored %r, written %r' % (docs.qname(k), v, root1.attrib[k]))]
    full1 = '<?xml version="1.0" encoding="UTF-8" standalone="no"?>\n' + text1
    try:
        e2 = docs.parse_file(full1)
        with lib.Capture():
            text2 = e2.to_string()
    except Exception as ex:
        tn, where = hist.exc_info(ex)
        return 'ok', [('own-output-not-readable:%s' % tn, '%s at %s: %s' % (tn, where, str(ex)[:120]))]
    d = docs.diff_infoset(ET.fromstring(text1), ET.fromstring(text2))
    if d:
        return 'ok', [('roundtrip-differs', d)]
    p = docs.numeric_types_ok(e2)
    if p:
        return 'ok', [('integer-not-int-after-parsing', p)]
    try:
        e3 = docs.parse_file('<?xml version="1.0" encoding="UTF-8" standalone="no"?>\n' + text2)
        with lib.Capture():
            text3 = e3.to_string()
    except Exception as ex:
        return 'ok', [('second-roundtrip-raises:%s' % type(ex).__name__, str(ex)[:120])]
    if text3 != text2:
        return 'ok', [('second-roundtrip-not-identical', docs.diff_infoset(ET.fromstring(text2), ET.fromstring(text3)) or 'byte difference')]
    return 'ok', []


def run_unit(name, tier, seed):
    lang.STATS.clear()
    stats = collections.Counter()
    cands, samples = [], []
    funcs = set()
    first = True
    for label, spec in variants(name, tier):
        if first:
            first = False
            with hist.symx.FuncTrace() as ft:
                status, found = judge_spec(spec)
            funcs |= ft.funcs
        else:
            status, found = judge_spec(spec)
        stats['paths'] += 1
        if status != 'ok':
            stats['not_built'] += 1
            stats[status] += 1
            continue
        stats['documents_roundtripped'] += 1
        for kind, detail in found:
            cands.append(dict(cls=name, kind=kind, witness=dict(variant=label, spec=spec), detail=detail))
        if len(samples) < 2 and label != 'minimal':
            samples.append(dict(root=name, variant=label, verdict='same infoset, second trip byte-identical' if not found else found[0][0]))
    from .. import f1
    f1.oracle_stats(stats)
    stats['decisions'] = stats['paths']
    return dict(stats=stats, cands=cands, samples=samples, funcs=sorted(funcs), nontrivial=int(stats['documents_roundtripped']),
                evaluations=int(stats['paths']), bounds=LIMITS[tier])


REPLAY_ONE_PER_PROCESS = True


def replay(c):
    """in a fresh interpreter: the documents of the class in the order the check handles them (a finding may depend on the
    documents parsed before it in the same process), then the single document alone"""
    for tier in ('quick', 'thorough'):
        for label, spec in variants(c['cls'], tier):
            status, found = judge_spec(spec)
            if label == c['witness']['variant']:
                for k, d in found:
                    if k == c['kind']:
                        return True, d
                break
    status, found = judge_spec(c['witness']['spec'])
    for k, d in found:
        if k == c['kind']:
            return True, d
    return False, status


def describe():
    return dict(
        rule='per element class: the minimal valid document, child words (length <= 3/4) with minimal valid children, every solver-chosen '
             'representative value of the content type, every declared attribute singly with representative values, four exponent-notation floats for decimal-typed values; each built through the API, '
             'written (the written value compared with the stored one), parsed, re-serialised, parsed, re-serialised; non-trivial = documents that could be built and serialised',
        functions=['parser/parser.py:parse_musicxml', 'parser/parser.py:_parse_node', 'parser/parser.py:_et_xml_to_music_xml',
                   'xmlelement/xmlelement.py:XMLElement.to_string', 'XMLElement._create_et_xml_element', 'XMLElement.__setattr__', 'XMLElement._set_attributes'],
        bounds=dict(LIMITS, decimals='<= 15 significant digits', outside='attribute combinations, deeper nesting than minimal children, longer words'),
        assumptions=['representative values are z3 models of the reference lexical space at each bound, interior points, literals, pattern models of several lengths, plus fixed strings with interior whitespace / markup / non-ASCII where valid',
                     'documents the API refuses to build are skipped and counted (C02/C04/C05 matter)',
                     'infoset equality up to decimal spelling of decimal-typed values and surrounding whitespace'],
        exhaustive_within_bounds=True)
