"""C20 — independent documents can be built concurrently from several threads.
(B) bounded model checking of a model extracted from the AST of the current source: every function
with the lazy-initialisation idiom (`if <cell> is None / not <cell> / <cell> == 'notset': ... <cell> = ...`)
on a class-level or shared cell is linearised into line-granular steps; two copies run under a z3
schedule variable (<= 2 context switches quick, 3 thorough); z3 is asked for a schedule in which a
thread returns a table that differs from the sequential one.  Every model is replayed on the real code
with real threads under a sys.settrace scheduler, per class that reaches the site."""
import ast
import collections
import json
import os
import subprocess
import sys
import textwrap
import time
import z3

from .. import lib, lang

LEVEL = 'model_checking'
MODULES = ['xsd/xsdcomplextype.py', 'xsd/xsdattribute.py', 'xsd/xsdtree.py', 'xsd/xsdsimpletype.py', 'xsd/xsdindicator.py',
           'xsd/xsdelement.py', 'xmlelement/xmlelement.py', 'xmlelement/xmlchildcontainer.py', 'xmlelement/containers.py',
           'util/core.py', 'generate_classes/utils.py']


def repo_root():
    import musicxml
    return os.path.dirname(musicxml.__file__)


# ------------------------------------------------------------------ AST extraction
def _attr_name(node):
    """X.attr with X in {self, cls, type(self), self.__class__, <module global>} -> (owner kind, attr)"""
    if not isinstance(node, ast.Attribute):
        return None
    v = node.value
    if isinstance(v, ast.Name):
        return (v.id, node.attr)
    if isinstance(v, ast.Call) and isinstance(v.func, ast.Name) and v.func.id == 'type':
        return ('cls', node.attr)
    if isinstance(v, ast.Attribute) and v.attr == '__class__':
        return ('cls', node.attr)
    return None


def cell_of(test):
    """guard forms: `X is None`, `X == 'notset'`, `not X`, possibly inside and/or; returns the attribute name guarded"""
    t = test
    if isinstance(t, ast.BoolOp):
        for v in t.values:
            c = cell_of(v)
            if c:
                return c
        return None
    if isinstance(t, ast.Compare) and len(t.ops) == 1 and isinstance(t.ops[0], (ast.Is, ast.Eq)) and _attr_name(t.left):
        c = t.comparators[0]
        if isinstance(c, ast.Constant) and (c.value is None or c.value == 'notset'):
            return _attr_name(t.left)[1]
    if isinstance(t, ast.UnaryOp) and isinstance(t.op, ast.Not) and _attr_name(t.operand):
        return _attr_name(t.operand)[1]
    return None


def is_cell(node, cell):
    a = _attr_name(node)
    return a is not None and a[1] == cell


def owner_of(node, cell):
    a = _attr_name(node)
    return a[0] if a and a[1] == cell else None


def mentions(node, cell):
    return any(is_cell(n, cell) for n in ast.walk(node))


def extract_function(fn, qual, relpath):
    sites = []
    body = fn.body
    for idx, node in enumerate(body):
        if not isinstance(node, ast.If):
            continue
        cell = cell_of(node.test)
        if not cell:
            continue
        steps = [('GUARD', node.lineno, False)]
        owners = set()

        def walk(stmts, in_loop):
            for st in stmts:
                if isinstance(st, (ast.Assign, ast.AugAssign, ast.AnnAssign)):
                    targets = st.targets if isinstance(st, ast.Assign) else [st.target]
                    if any(is_cell(t, cell) for t in targets):
                        owners.update(owner_of(t, cell) for t in targets if is_cell(t, cell))
                        val = st.value
                        if isinstance(val, (ast.List, ast.Dict, ast.Set)) and not (getattr(val, 'elts', None) or getattr(val, 'keys', None)):
                            steps.append(('W_EMPTY', st.lineno, in_loop))
                        elif isinstance(st, ast.AugAssign) or mentions(val, cell):
                            steps.append(('APPEND', st.lineno, in_loop))
                        else:
                            steps.append(('W_FULL', st.lineno, in_loop))
                elif isinstance(st, ast.Expr) and isinstance(st.value, ast.Call) and isinstance(st.value.func, ast.Attribute) \
                        and is_cell(st.value.func.value, cell) and st.value.func.attr in ('append', 'extend', 'add', 'update', 'insert', 'setdefault'):
                    owners.add(owner_of(st.value.func.value, cell))
                    steps.append(('APPEND', st.lineno, in_loop))
                elif isinstance(st, (ast.For, ast.While)):
                    walk(st.body, True)
                    walk(st.orelse, in_loop)
                elif isinstance(st, ast.If):
                    walk(st.body, in_loop)
                    walk(st.orelse, in_loop)
                elif isinstance(st, ast.Try):
                    walk(st.body, in_loop)
                    for h in st.handlers:
                        walk(h.body, in_loop)
                    walk(st.finalbody, in_loop)
                elif isinstance(st, ast.With):
                    walk(st.body, in_loop)
        walk(node.body, False)
        if len(steps) == 1:
            continue           # guard without an assignment to the cell: not lazy initialisation
        ret = None
        for st in body[idx + 1:]:
            if isinstance(st, ast.Return):
                ret = st.lineno
                break
        steps.append(('RETURN', ret or (body[-1].end_lineno or body[-1].lineno), False))
        sites.append(dict(module=relpath, function=qual, cell=cell, owners=sorted(o for o in owners if o), steps=steps, first_line=fn.lineno, last_line=fn.end_lineno))
    return sites


def extract_all():
    root = repo_root()
    sites = []
    nfunc = 0
    for rel in MODULES:
        path = os.path.join(root, rel)
        if not os.path.exists(path):
            continue
        tree = ast.parse(open(path, encoding='utf-8').read())

        def visit(node, prefix):
            nonlocal nfunc
            for ch in ast.iter_child_nodes(node):
                if isinstance(ch, ast.ClassDef):
                    visit(ch, prefix + ch.name + '.')
                elif isinstance(ch, (ast.FunctionDef, ast.AsyncFunctionDef)):
                    nfunc += 1
                    sites.extend(extract_function(ch, prefix + ch.name, rel))
                    visit(ch, prefix + ch.name + '.')
        visit(tree, '')
    return sites, nfunc


def shared_cell(site):
    """class-level cells and cells of schema objects that hang off class-level tables are shared between threads;
    `self.` cells of XMLElement / XMLChildContainer / simple-type validator instances belong to one thread's document"""
    owners = site['owners']
    if 'cls' in owners or any(o not in ('self', 'cls') for o in owners):
        return True
    if site['module'] in ('xsd/xsdtree.py', 'xsd/xsdattribute.py', 'xsd/xsdelement.py', 'xsd/xsdindicator.py'):
        return True          # XSDTree / XSDAttribute / XSDElement objects are reachable from class-level tables
    return False


# ------------------------------------------------------------------ BMC
def bmc(steps, max_switches=2, fill=2):
    prog = []
    for s in steps[1:-1]:
        if s[0] == 'APPEND':
            prog += [('APPEND', s[1])] * (fill if s[2] else 1)
        else:
            prog.append((s[0], s[1]))
    total = sum(1 for p in prog if p[0] == 'APPEND')
    has_full = any(p[0] == 'W_FULL' for p in prog)
    P = [('GUARD', steps[0][1])] + prog + [('RETURN', steps[-1][1])]
    n = len(P)
    T = 2 * n
    s = z3.Solver()
    who = [z3.Int('who%d' % t) for t in range(T)]
    pc = [[z3.Int('pc%d_%d' % (t, i)) for i in range(2)] for t in range(T + 1)]
    isnone = [z3.Bool('none%d' % t) for t in range(T + 1)]
    ln = [z3.Int('len%d' % t) for t in range(T + 1)]
    full = [z3.Bool('full%d' % t) for t in range(T + 1)]
    ret = [z3.Int('ret%d' % i) for i in range(2)]
    retfull = [z3.Bool('retfull%d' % i) for i in range(2)]
    s.add(pc[0][0] == 0, pc[0][1] == 0, isnone[0], ln[0] == 0, z3.Not(full[0]))
    for t in range(T):
        s.add(z3.Or(who[t] == 0, who[t] == 1, who[t] == 2))
        s.add(z3.Implies(who[t] == 2, z3.And(pc[t][0] == n, pc[t][1] == n, isnone[t + 1] == isnone[t], ln[t + 1] == ln[t], full[t + 1] == full[t])))
        for i in range(2):
            me = who[t] == i
            s.add(z3.Implies(z3.Not(me), pc[t + 1][i] == pc[t][i]))
            s.add(z3.Implies(me, pc[t][i] < n))
            for k, (op, line) in enumerate(P):
                at = z3.And(me, pc[t][i] == k)
                same = z3.And(isnone[t + 1] == isnone[t], ln[t + 1] == ln[t], full[t + 1] == full[t])
                if op == 'GUARD':
                    s.add(z3.Implies(at, z3.And(pc[t + 1][i] == z3.If(isnone[t], k + 1, n - 1), same)))
                elif op == 'W_EMPTY':
                    s.add(z3.Implies(at, z3.And(pc[t + 1][i] == k + 1, z3.Not(isnone[t + 1]), ln[t + 1] == 0, z3.Not(full[t + 1]))))
                elif op == 'W_FULL':
                    s.add(z3.Implies(at, z3.And(pc[t + 1][i] == k + 1, z3.Not(isnone[t + 1]), ln[t + 1] == ln[t], full[t + 1])))
                elif op == 'APPEND':
                    s.add(z3.Implies(at, z3.And(pc[t + 1][i] == k + 1, isnone[t + 1] == isnone[t], ln[t + 1] == ln[t] + 1, full[t + 1] == full[t])))
                elif op == 'RETURN':
                    s.add(z3.Implies(at, z3.And(pc[t + 1][i] == k + 1, same, ret[i] == ln[t], retfull[i] == full[t])))
    s.add(pc[T][0] == n, pc[T][1] == n)
    sw = z3.Sum([z3.If(z3.And(who[t] != who[t + 1], who[t + 1] != 2), 1, 0) for t in range(T - 1)])
    s.add(sw <= max_switches)
    # a thread observes a table shorter than the sequential one (longer = duplicate rows: benign, counted separately)
    s.add(z3.Or([z3.Or(ret[i] < total, retfull[i] != has_full) for i in range(2)]))
    t0 = time.time()
    r = str(s.check())
    dt = time.time() - t0
    lang.STATS['bmc.calls'] += 1
    lang.STATS['bmc.' + r] += 1
    lang.STATS['solver_s'] = lang.STATS.get('solver_s', 0) + dt
    if r == 'unknown':
        raise RuntimeError('BMC solver unknown')
    if r == 'sat':
        m = s.model()
        sched = [m.eval(w, model_completion=True).as_long() for w in who]
        trace = []
        for t in range(T):
            i = sched[t]
            if i == 2:
                continue
            k = m.eval(pc[t][i], model_completion=True).as_long()
            trace.append([i, P[k][0], P[k][1]])
        return 'sat', trace, dict(program=[list(p) for p in P], global_steps=T)
    return r, None, dict(program=[list(p) for p in P], global_steps=T)


def preemption_point(trace):
    """the line after which the first running thread is pre-empted: (line, occurrence)"""
    first = trace[0][0]
    last = None
    occ = collections.Counter()
    for who, op, line in trace:
        if who != first:
            break
        occ[line] += 1
        last = (line, occ[line])
    return last


# ------------------------------------------------------------------ replay with real threads
REPLAY = r'''
import sys, json, threading, warnings, io, contextlib
warnings.simplefilter('ignore')
sys.path.insert(0, %(root)r)
spec = json.loads(%(spec)r)
from vf import lib
from vf.props import c20
buf = io.StringIO()
with contextlib.redirect_stdout(buf), contextlib.redirect_stderr(buf):
    out = c20.run_preempted(spec)
print('@@' + json.dumps(out))
'''


def workload(element, attr, value):
    def f():
        cls = lib.cls_of(element)
        try:
            kw = dict(lib_required(element))
            if attr:
                kw[attr.replace('-', '_')] = value
            v = lib.valid_value(element)
            e = cls(v, xsd_check=False, **kw) if v is not None else cls(xsd_check=False, **kw)
            return e.to_string()
        except Exception as ex:
            return 'EXC %s: %s' % (type(ex).__name__, str(ex)[:160])
    return f


def lib_required(element):
    return {k.replace('-', '_'): v for k, v in lib.required_attrs(element).items() if ':' not in k}


def run_preempted(spec):
    """thread A runs the workload under a tracer; right after `line` (occurrence-th time) inside `function` of `module`
    has executed for the class named in spec, A is held, thread B runs the workload to completion, A continues."""
    import threading
    wa = workload(spec['element'], spec.get('attr'), spec.get('value'))
    wb = workload(spec['element'], spec.get('attr'), spec.get('value'))
    fname = spec['function'].split('.')[-1]
    state = dict(seen=0, armed=False, fired=False)
    res = {}

    def runB():
        res['B'] = wb()

    def local(frame, event, arg):
        if state['fired']:
            return local
        if state['armed'] and event in ('line', 'return'):
            state['fired'] = True
            t = threading.Thread(target=runB)
            t.start()
            t.join()
            return local
        if event == 'line' and frame.f_lineno == spec['line']:
            state['seen'] += 1
            if state['seen'] == spec['occurrence']:
                state['armed'] = True
        return local

    def tracer(frame, event, arg):
        co = frame.f_code
        if event == 'call' and co.co_name == fname and co.co_filename.endswith(spec['module']) and not state['fired']:
            owner = frame.f_locals.get('cls') or frame.f_locals.get('self')
            oname = getattr(owner, '__name__', type(owner).__name__)
            if spec.get('owner') in (None, oname):
                return local
        return tracer

    def runA():
        sys.settrace(tracer)
        try:
            res['A'] = wa()
        finally:
            sys.settrace(None)
    ta = threading.Thread(target=runA)
    ta.start()
    ta.join()
    if 'B' not in res:
        res['B'] = None
    res['sequential'] = workload(spec['element'], spec.get('attr'), spec.get('value'))()
    res['preempted'] = state['fired']
    return res


def replay_spec(spec, timeout=300):
    code = REPLAY % dict(root=os.path.dirname(os.path.dirname(os.path.dirname(os.path.abspath(__file__)))), spec=json.dumps(spec))
    p = subprocess.run([sys.executable, '-W', 'ignore', '-c', code], capture_output=True, text=True, timeout=timeout,
                       env=dict(os.environ, PYTHONDONTWRITEBYTECODE='1'))
    outs = [l for l in p.stdout.splitlines() if l.startswith('@@')]
    if not outs:
        raise RuntimeError('replay process failed: ' + p.stderr[-500:])
    return json.loads(outs[-1][2:])


def owners_and_workloads(site, tier):
    """classes that reach the site, each with an element + attribute workload"""
    import musicxml.xsd.xsdcomplextype as CT
    out = []
    fn = site['function']
    if fn.endswith('get_xsd_attributes'):
        by_type = collections.defaultdict(list)
        for el in sorted(lib.MODEL['elements']):
            tn, c, st = lib.type_of(el)
            if c and c['attrs']:
                by_type[tn].append(el)
        from .c03 import complex_class_name
        for tn, els in sorted(by_type.items()):
            c = lib.MODEL['complex'][tn]
            attr = None
            for a in c['attrs']:
                if ':' not in a['name'] and not a.get('fixed'):
                    from .. import refmodel
                    v = lib.sample_for(refmodel.attr_type(lib.MODEL, a))
                    if v is not None:
                        attr = (a['name'], v)
                        break
            if attr is None:
                continue
            if site['function'].startswith('XSDComplexType'):
                out.append(dict(owner=complex_class_name(tn), element=els[0], attr=attr[0], value=attr[1]))
            else:
                out.append(dict(owner=None, element=els[0], attr=attr[0], value=attr[1]))
    else:
        for el, attr, val in (('text', 'font-size', 12.5), ('words', 'font-size', 'small'), ('words', 'letter-spacing', 1.5), ('display-text', 'font-size', 11.5),
                              ('credit-words', 'line-height', 'normal'), ('fret', None, None), ('type', None, None), ('swing-type', None, None),
                              ('measure', 'number', '1'), ('direction', 'system', 'only-top'), ('accidental-mark', 'parentheses', 'yes'),
                              ('note', None, None), ('pitch', None, None)):
            out.append(dict(owner=None, element=el, attr=attr, value=val))
    if tier == 'quick':
        out = out[::7] if len(out) > 14 else out
    return out


def units(tier):
    return ['lazy-init']


def run_unit(unit, tier, seed):
    lang.STATS.clear()
    stats = collections.Counter()
    sites, nfunc = extract_all()
    cands, samples, notes = [], [], []
    sw = 2 if tier == 'quick' else 3
    fill = 2 if tier == 'quick' else 3
    stats['functions_scanned'] = nfunc
    stats['lazy_init_sites'] = len(sites)
    for site in sites:
        if not shared_cell(site):
            stats['sites_on_per_document_objects'] += 1
            continue
        stats['paths'] += 1
        verdict, trace, info = bmc(site['steps'], sw, fill)
        stats['decisions'] += info['global_steps']
        name = '%s:%s' % (site['module'], site['function'])
        if len(samples) < 4:
            samples.append(dict(site=name, cell=site['cell'], abstract_program=info['program'], bmc=verdict, schedule=trace))
        if verdict != 'sat':
            stats['sites_unsat'] += 1
            continue
        stats['sites_sat'] += 1
        line, occ = preemption_point(trace)
        reproduced_any = False
        for wl in owners_and_workloads(site, tier):
            spec = dict(wl, module=site['module'], function=site['function'], line=line, occurrence=occ)
            r = replay_spec(spec)
            stats['replays'] += 1
            if not r['preempted']:
                stats['replays_site_not_reached'] += 1
                continue
            if r['A'] != r['sequential'] or r['B'] != r['sequential']:
                reproduced_any = True
                cands.append(dict(cls=wl.get('owner') or wl['element'], kind='lazy-init-race',
                                  witness=dict(site=name, cell=site['cell'], element=wl['element'], attr=wl.get('attr'), owner=wl.get('owner'),
                                               preempt_after=[s for s in site['steps'] if s[1] == line][0][0], occurrence=occ),
                                  detail='thread A %r / thread B %r / alone %r' % (r['A'][:70], (r['B'] or '')[:90], r['sequential'][:50]),
                                  spec=spec))
            else:
                stats['replays_benign'] += 1
        if not reproduced_any:
            notes.append('%s: schedule found by the model, no observable difference on the real code (benign)' % name)
    from .. import f1
    f1.oracle_stats(stats)
    for c in cands:
        c['witness']['spec'] = {k: c['spec'][k] for k in ('module', 'function', 'line', 'occurrence', 'element', 'attr', 'value', 'owner')}
        # line numbers are not part of the key: they move with unrelated edits
        c['witness']['spec'].pop('line')
        del c['spec']
    return dict(stats=stats, cands=cands, samples=samples, notes=notes, nontrivial=int(stats['paths']), evaluations=int(stats['paths'] + stats['replays']),
                funcs=sorted('%s:%s' % (s['module'], s['function']) for s in sites),
                bounds=dict(threads=2, context_switches=sw, loop_fill=fill))


def replay(c):
    w = c['witness']
    sites, _ = extract_all()
    for site in sites:
        if '%s:%s' % (site['module'], site['function']) == w['site'] and site['cell'] == w['cell']:
            verdict, trace, info = bmc(site['steps'], 3, 3)
            if verdict != 'sat':
                return False, 'model has no bad schedule any more'
            line, occ = preemption_point(trace)
            # the solver may return another bad schedule of the same site than in the run that produced the witness: the preemption
            # recorded in the witness is tried first, then the recomputed one, then the other early occurrences of that line
            tried, r = [], None
            for ln, oc in [(w['spec'].get('line', line), w['spec'].get('occurrence', occ)), (line, occ), (line, 1), (line, 2), (line, 3)]:
                if (ln, oc) in tried:
                    continue
                tried.append((ln, oc))
                r = replay_spec(dict(w['spec'], line=ln, occurrence=oc))
                if r['preempted'] and (r['A'] != r['sequential'] or r['B'] != r['sequential']):
                    return True, json.dumps(r)[:400]
            return False, json.dumps(r)[:400]
    return False, 'site not found'


def describe():
    return dict(
        rule='every function of the runtime modules is scanned for the lazy-initialisation idiom on a shared cell; each site is one bounded '
             'model-checking query over 2 threads; each sat schedule is replayed with real threads per class reaching the site; '
             'non-trivial = sites model-checked',
        functions=['xsd/xsdcomplextype.py:XSDComplexType.get_xsd_attributes', 'xsd/xsdattribute.py:XSDAttributeGroup.get_xsd_attributes',
                   'xsd/xsdtree.py:XSDTreeElement.get_xsd_tree', 'xmlelement/xmlelement.py:XMLElement._fill_xsd_tree', 'xsd/xsdtree.py:XSDTree.*',
                   'xsd/xsdattribute.py:XSDAttribute.*', 'xsd/xsdelement.py:XSDElement.name'],
        bounds=dict(threads=2, context_switches='<= 2 quick / 3 thorough', loop_fill='2 / 3', granularity='source line',
                    outside='races outside the lazy-initialisation idiom, bytecode-level interleavings inside one line, more than two threads, verysimpletree iterator caches'),
        assumptions=['exclusive branches of a guarded block are concatenated (over-approximation: can only add candidate schedules)',
                     'only a schedule whose real-thread replay changes a thread\'s serialisation or exception is a violation; duplicate rows are benign'],
        exhaustive_within_bounds=True)
