"""C06 — no child is ever lost, duplicated or orphaned.  F1 histories with an assertion after
every operation, children compared by identity."""
from .. import lib, hist, f1

LEVEL = f1.LEVEL


def units(tier):
    return f1.all_units()


def per_step(w, st):
    e = w.e
    found = []
    if st.foreign:
        return [('child-of-another-element-lost', '%s: %s' % (st.op, st.foreign))]
    un = e.get_children(ordered=False)
    try:
        od = e.get_children(ordered=True)
    except Exception as ex:
        return [('ordered-view-raises', repr(ex)[:100])]
    lid = [id(c) for c in w.live]
    if [id(c) for c in un] != lid:
        found.append(('insertion-view-differs-from-history', 'after %s: unordered %s expected %s' % (st.op, w.names(un), w.names(w.live))))
    elif sorted(id(c) for c in od) != sorted(lid):
        found.append(('views-differ', 'after %s (%s): ordered %s unordered %s' % (st.op, 'ok' if st.ok else st.exc, w.names(od), w.names(un))))
    else:
        for c in w.live:
            if c.get_parent() is not e:
                found.append(('child-without-parent', 'after %s: %s' % (st.op, w.made[id(c)][0])))
                break
        for c in w.dead:
            if c.get_parent() is not None:
                found.append(('removed-child-keeps-parent', 'after %s: %s' % (st.op, w.made[id(c)][0])))
                break
    if st.op[0] == 'TOSTRING' and st.ok and not found:
        tags = sorted(hist.out_children(st.text))
        if tags != sorted(w.names(w.live)):
            found.append(('output-multiset-differs', 'children %s output %s' % (sorted(w.names(w.live)), tags)))
    return found[:1]


def judge(w):
    if any(getattr(s, 'c06', None) for s in w.steps):
        return []
    st = w.apply(['TOSTRING', 0])
    return per_step(w, st)


def _all(w, collected):
    return collected


def judge_concrete(name, ops, extra):
    found = []
    w = hist.run_ops(name, ops, after=lambda w, st: found.extend(per_step(w, st)))
    found.extend(judge(w))
    return found[:1]


def run_unit(name, tier, seed):
    return f1.multi(name, f1.std_passes(name, tier), judge, judge_concrete, per_step=per_step)


def replay(c):
    if c['kind'] == 'hang':
        return (True, 'exceeded 30 s again') if hist.hangs(c['cls'], c['witness']['ops']) else (False, 'finished within the limit')
    for k, d in judge_concrete(c['cls'], c['witness']['ops'], c['witness']):
        if k == c['kind']:
            return True, d
    return False, 'views agree'


def describe():
    return dict(
        rule='every operation from every reachable state per element class (breadth-first, see bounds); after every operation the ordered view, '
             'the insertion-ordered view and the harness\'s own record are compared by object identity; non-trivial = every history',
        functions=['xmlelement/xmlelement.py:XMLElement.add_child', 'XMLElement.remove', 'XMLElement.replace_child',
                   'XMLElement.get_children', 'xmlelement/xmlchildcontainer.py:XMLChildContainer.add_element', 'xsd/xsdelement.py:XSDElement.add_xml_element'],
        bounds=dict(exploration='breadth-first over reachable states (structural fingerprints merge equal states), depth <= 8 quick / 10 thorough; every state expanded by all 10 operation kinds at depth <= 2 (3), by ADD REMOVE REPLACE DOTSET DOTNONE SELF deeper; path budget 3500 quick / 45000 thorough per class (breadth-first order: the cut removes the deepest states)',
                    outside='longer histories'),
        assumptions=['children built with xsd_check=False', 'quick tier: symmetry-reduced alphabets'],
        exhaustive_within_bounds=True)
