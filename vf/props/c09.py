"""C09 — any schema-valid MusicXML file is read without loss; nothing is silently dropped.
Positive half: documents are written as XML text by vf/docs.py from the pinned reference model alone
(shapes from solver-checked word sets, values = z3 models of the lexical spaces, every attribute form
the schema allows incl. xml:/xlink: names) and must parse and re-serialise to the same infoset.
Negative half: one z3-chosen edit per document (undeclared child / attribute, character data where the
type allows none, tail text, numeric look-alikes from L(float()) minus the xs:decimal lexical space and
L(int()) minus xs:integer, comment / processing instruction): the parser must raise or reproduce every
item of the input."""
import collections
import re
import xml.etree.ElementTree as ET
import z3

from .. import lib, docs, lang, lex, rx, refmodel, hist, words
from . import c08

LEVEL = 'model_checking'

# what float() / int() accept (CPython grammar, as an XSD-style regex over SIGMA); \d is Unicode Nd
FLOAT_GRAMMAR = r'[ \t\n]*[+\-]?((\d(_?\d)*)(\.(\d(_?\d)*)?)?([eE][+\-]?\d(_?\d)*)?|\.\d(_?\d)*([eE][+\-]?\d(_?\d)*)?|[iI][nN][fF]|[nN][aA][nN])[ \t\n]*'
INT_GRAMMAR = r'[ \t\n]*[+\-]?\d(_?\d)*[ \t\n]*'
_LOOK = {}


def lookalikes(kind, n=5):
    """z3 models of: accepted by float()/int() but outside the XSD lexical space of xs:decimal / xs:integer"""
    if kind in _LOOK:
        return _LOOK[kind]
    v = z3.String('v')
    g = rx.xsd_to_z3(FLOAT_GRAMMAR if kind == 'decimal' else INT_GRAMMAR)
    lexre = rx.xsd_to_z3(lex.DECIMAL_LEX if kind == 'decimal' else lex.INTEGER_LEX)
    ws = z3.Star(rx.cls([' ', '\t', '\n']))
    s = z3.Solver()
    s.set('timeout', 20000)
    s.add(z3.InRe(v, g), z3.Not(z3.InRe(v, z3.Concat(ws, lexre, ws))), z3.Length(v) <= 5, z3.Length(v) >= 1)
    out = []
    feats = [z3.Contains(v, z3.StringVal('_')), z3.Or(z3.Contains(v, z3.StringVal('e')), z3.Contains(v, z3.StringVal('E'))),
             z3.Contains(v, z3.StringVal('١')), z3.Or(z3.Contains(v, z3.StringVal('n')), z3.Contains(v, z3.StringVal('N'))), z3.BoolVal(True)]
    for f in feats:
        s.push()
        s.add(f)
        for o in out:
            s.add(v != z3.StringVal(o))
        r = str(s.check())
        if r == 'sat':
            val = lang.unescape(s.model().eval(v, model_completion=True).as_string())
            # the model must really be accepted by the builtin (validation of the grammar model)
            try:
                (float if kind == 'decimal' else int)(val)
                out.append(val)
            except ValueError:
                raise RuntimeError('grammar model accepts %r but %s() does not' % (val, 'float' if kind == 'decimal' else 'int'))
        s.pop()
    if kind == 'integer':
        out += [x for x in ('+2', '02') if x not in out]
    _LOOK[kind] = out[:n + 2]
    return _LOOK[kind]


def units(tier):
    return sorted(lib.MODEL['elements'])


def parse_text(text):
    try:
        e = docs.parse_file(text)
    except Exception as ex:
        return None, ex
    try:
        with lib.Capture():
            saved = e.xsd_check
            out = e.to_string()
        return out, None
    except Exception as ex:
        return None, ex


def judge_positive(spec):
    text = docs.to_xml(spec)
    out, ex = parse_text(text)
    if ex is not None:
        tn, where = hist.exc_info(ex)
        return [('valid-file-not-read:%s' % tn, '%s at %s: %s' % (tn, where, str(ex)[:100]))]
    d = docs.diff_infoset(ET.fromstring(text.split('?>', 1)[1]), ET.fromstring(out))
    if d:
        return [('valid-file-altered', d)]
    return []


def items(node, path=''):
    """every element, attribute and text value of an ET tree as comparable items"""
    here = '%s/%s' % (path, node.tag)
    out = [('element', here)]
    for k, v in node.attrib.items():
        out.append(('attr', here + '/@' + docs.qname(k), v))
    if (node.text or '').strip():
        out.append(('text', here, node.text.strip()))
    if (node.tail or '').strip():
        out.append(('tail', here, node.tail.strip()))
    seen = collections.Counter()
    for c in node:
        seen[c.tag] += 1
        out.extend(items(c, '%s[%s#%d]' % (here, c.tag, seen[c.tag])))
    return out


def lost_items(inp, outp):
    """items of the input that the output does not show (numerically equal spellings of VALID numbers are equal)"""
    a = items(inp)
    b = items(outp)
    setb = set(b)
    lost = []
    for it in a:
        if it in setb:
            continue
        if it[0] in ('attr', 'text'):
            cand = [x for x in b if x[0] == it[0] and x[1] == it[1]]
            if cand:
                v_in, v_out = it[2], cand[0][2]
                if re.fullmatch(r'[+\-]?([0-9]+(\.[0-9]*)?|\.[0-9]+)', v_in) and docs.same_text(v_in, v_out, dict(kind='decimal')):
                    continue
        lost.append(it)
    return lost


def mutations(name, spec, tier):
    """(label, xml text) with exactly one edit"""
    out = []
    base = docs.to_et(spec)
    tn, c, st = lib.type_of(name)

    def variant(label, f):
        root = docs.to_et(spec)
        f(root)
        ET.indent(root, space='  ')
        out.append((label, '<?xml version="1.0" encoding="UTF-8" standalone="no"?>\n' + ET.tostring(root, encoding='unicode') + '\n'))
    variant('undeclared-child', lambda r: r.append(ET.Element('no-such-element')))
    variant('undeclared-attribute', lambda r: r.set('no-such-attribute', 'x'))
    if st is None:
        def chardata(r):
            r.text = 'stray text'
        variant('character-data-in-element-without-text', chardata)
    if len(base):
        def tail(r):
            r[0].tail = 'tail text'
        variant('tail-text-after-child', tail)
    if st is not None and st['kind'] in ('decimal', 'integer'):
        for v in lookalikes(st['kind']):
            def setv(r, v=v):
                r.text = v
            variant('numeric-lookalike-text:%s' % v.strip() if v.strip() else 'ws', setv)
    if c:
        n = 0
        for a in c['attrs']:
            T = refmodel.attr_type(lib.MODEL, a)
            if ':' in a['name'] or T['kind'] not in ('decimal', 'integer'):
                continue
            for v in lookalikes(T['kind'])[:3 if tier == 'quick' else 7]:
                def seta(r, k=a['name'], v=v):
                    r.set(k, v)
                variant('numeric-lookalike-attribute:%s=%s' % (a['name'], v.strip()), seta)
            n += 1
            if n >= (1 if tier == 'quick' else 4):
                break

    if c:
        # an invalid value (z3 model of the complement of the type's lexical space) for up to 3 attributes of different types
        import json
        from .c04 import invalid_values
        seen_types = set()
        for a in c['attrs']:
            T = refmodel.attr_type(lib.MODEL, a)
            k = json.dumps(T, sort_keys=True)
            if ':' in a['name'] or a['name'] == 'name' or a.get('fixed') or k in seen_types:
                continue
            bad = [v for v in invalid_values(T) if isinstance(v, str) and v.strip() == v and v != '']
            if T.get('enums'):
                bad = ['no-such-literal'] + bad
            if not bad:
                continue
            seen_types.add(k)

            def setbad(r, k=a['name'], v=bad[0]):
                r.set(k, v)
            variant('invalid-attribute-value:%s=%s' % (a['name'], bad[0]), setbad)
            if len(seen_types) >= (3 if tier == 'quick' else 8):
                break

    def comment(r):
        r.insert(0, ET.Comment('a comment'))
    variant('comment', comment)
    return out


def judge_negative(label, text):
    out, ex = parse_text(text)
    if ex is not None:
        return []                       # the parser raised: nothing was silently lost (the exception type is C19's business)
    inp = ET.fromstring(text.split('?>', 1)[1])
    lost = lost_items(inp, ET.fromstring(out))
    if label == 'comment':
        lost = [x for x in lost if not callable(x[1])]
    if lost:
        return [('silently-dropped-or-altered:%s' % label.split(':')[0], '%s: input item %s missing from the re-serialised output' % (label, lost[0]))]
    return []


def variants(name, tier):
    vs = c08.variants(name, tier)
    # attribute forms only a file can carry: namespaced attributes are already in c08.variants (attr:xml:lang=...)
    return vs + long_words(name)


LONG = dict(max_alphabet=8, lengths=(4, 5), per_class=40)


def long_words(name):
    """words of the content model with 4-5 children for the classes whose (reduced) alphabet has <= 8 names: two and more
    iterations of a repeatable group with different optional members (a non-traditional key with two key-step groups, a
    metronome with several beat-unit-dots ...) need more children than the C08 shapes have.  Same set in both tiers; own
    label so that the findings are keyed apart from the 'word:' ones."""
    m = lib.content_model(name)
    if m is None:
        return []
    A = hist.reduced_alphabet(name)
    if len(A) > LONG['max_alphabet']:
        return []
    ws, complete, _ = words.by_length(m, A, max(LONG['lengths']), 400)
    ws = sorted([w for w in ws if len(w) in LONG['lengths']], key=lambda w: (-len(w), w))[:LONG['per_class']]
    return [('longword:' + ','.join(w), docs.with_word(name, w)) for w in ws]


def run_unit(name, tier, seed):
    lang.STATS.clear()
    stats = collections.Counter()
    cands, samples = [], []
    seen = set()
    for label, spec in variants(name, tier):
        stats['paths'] += 1
        f = judge_positive(spec)
        if not f:
            stats['valid_documents_read'] += 1
        for kind, detail in f:
            key = (kind, label.split('=')[0].split(':')[0] + (':' + label.split(':')[1].split('=')[0] if label.startswith('attr:') else ''))
            if key in seen:
                continue
            seen.add(key)
            cands.append(dict(cls=name, kind=kind, witness=dict(half='positive', variant=label, spec=spec), detail=detail))
    base = docs.minimal(name)
    for label, text in mutations(name, base, tier):
        stats['paths'] += 1
        stats['mutated_documents'] += 1
        for kind, detail in judge_negative(label, text):
            cands.append(dict(cls=name, kind=kind, witness=dict(half='negative', mutation=label, text=text), detail=detail))
    if len(samples) < 1:
        samples.append(dict(root=name, valid_documents=int(stats['valid_documents_read']), mutated=int(stats['mutated_documents']),
                            lookalikes=dict(decimal=lookalikes('decimal'), integer=lookalikes('integer'))))
    from .. import f1
    f1.oracle_stats(stats)
    stats['decisions'] = stats['paths']
    return dict(stats=stats, cands=cands, samples=samples, nontrivial=int(stats['paths']), evaluations=int(stats['paths']),
                funcs=['parser/parser.py:parse_musicxml', 'parser/parser.py:_parse_node', 'parser/parser.py:_et_xml_to_music_xml', 'xmlelement/xmlelement.py:XMLElement._set_attributes',
                       'XMLElement.add_child', 'XMLElement.to_string'],
                bounds=c08.LIMITS[tier])


def replay(c):
    w = c['witness']
    if w['half'] == 'positive':
        found = judge_positive(w['spec'])
    else:
        found = judge_negative(w['mutation'], w['text'])
    for k, d in found:
        if k == c['kind']:
            return True, d
    return False, 'read without loss / raised'


def describe():
    return dict(
        rule='per element class as document root: (positive) the C08 shapes written as XML text by vf/docs.py, never touching the library, incl. '
             'xml:lang / xml:space / xlink:* attribute forms, plus words of 4-5 children for the classes with <= 8 child names; (negative) the minimal document with one edit: undeclared child, undeclared attribute, '
             'character data in an element without text, tail text, z3 models of L(float())\\L(xs:decimal) and L(int())\\L(xs:integer) as text and '
             'attribute values, a comment; non-trivial = documents parsed',
        functions=['parser/parser.py:parse_musicxml', '_parse_node', '_et_xml_to_music_xml', 'xmlelement/xmlelement.py:XMLElement._set_attributes', 'XMLElement.add_child'],
        bounds=dict(c08.LIMITS, long_words='classes with <= 8 child names: up to 40 words of 4-5 children each', mutations='one per document', outside='whole real-world scores (the repository\'s own .xml files are replayed by C08/C02 routes only indirectly); combinations of edits'),
        assumptions=['float()/int() grammar is modelled as a regular expression and every model is validated against the builtin',
                     'numerically equal re-spelling counts as preserved only when the input spelling is valid xs:decimal',
                     'comments and processing instructions are not elements, attributes or text values: ignoring them is not a loss'],
        exhaustive_within_bounds=True)
