"""C13 — element instances are isolated from one another.
Per element class, in a fresh process: (1) pristine phase: behaviour of fresh instances is recorded
(symbolically explored histories with their snapshots and next-child acceptance, value and attribute
probes with z3-chosen valid and invalid values); (2) disturbance: a live instance A is built, then other
instances of the same class, of classes sharing children, of unrelated classes and deep copies are
driven through histories including failing operations and intelligent-choice serialisation, every simple
type and element class is used once; (3) A must still show the snapshot it had, a structural digest of
process-wide state taken after the disturbance must not change any more, and fresh instances must behave
exactly as in the pristine phase."""
import collections
import copy
import hashlib
import z3

from .. import lib, hist, f1, docs, refmodel, symx, lang
from . import c10, c04

LEVEL = f1.LEVEL


def units(tier):
    from . import c05
    c05.precompute()
    return sorted(lib.MODEL['elements'])


# ------------------------------------------------------------------ probes on fresh instances
def value_probes(name, tier):
    tn, c, st = lib.type_of(name)
    if st is None:
        return []
    vals = list(docs.representatives(st, 4)) + list(c04.invalid_values(st))
    return [('value', None, v) for v in vals]


def attr_probes(name, tier):
    tn, c, st = lib.type_of(name)
    out = []
    for a in (c['attrs'] if c else []):
        if ':' in a['name'] or a['name'] == 'name' or a.get('fixed'):
            continue
        T = refmodel.attr_type(lib.MODEL, a)
        if not T.get('enums') and len(out) > 6:
            continue
        for v in list(docs.representatives(T, 2)) + list(c04.invalid_values(T)):
            out.append(('attr', a['name'], v))
        if len(out) > (20 if tier == 'quick' else 80):
            break
    return out


def run_probe(name, probe):
    kind, attr, v = probe
    cls = lib.cls_of(name)
    kw = {docs.py_attr(k): x for k, x in lib.required_attrs(name).items() if ':' not in k}
    with lib.Capture():
        try:
            if kind == 'value':
                e = cls(v, **kw)
            else:
                kw[docs.py_attr(attr)] = v
                v0 = lib.valid_value(name)
                e = cls(v0, **kw) if v0 is not None else cls(**kw)
            saved = e.xsd_check
            e.xsd_check = False
            t = e.to_string()
            return 'ok:' + t
        except Exception as ex:
            return 'raises:' + type(ex).__name__


def history_result(name, ops):
    w = hist.run_ops(name, ops)
    A = w.alphabet if len(w.alphabet) <= 6 else hist.reduced_alphabet(name)[:6]
    return (c10.full(w, A), hist.acceptance(name, ops, A), [(s.ok, s.exc) for s in w.steps])


# ------------------------------------------------------------------ process-wide state digest
def global_digest():
    """process-wide tables as {key: value}; lazily filled tables may go from unset to set, nothing may change once set"""
    import musicxml.xsd.xsdsimpletype as ST
    import musicxml.xsd.xsdcomplextype as CT
    import musicxml.xsd.xsdattribute as AT
    import musicxml.xsd.xsdindicator as IN
    from musicxml.xmlelement.containers import containers
    out = {}

    def enc_tree(node, acc):
        # every plain field of the node and of its content (flags, occurrence bounds, number of attached elements), whatever it is called
        def plain(o):
            out = []
            for k, v in sorted(vars(o).items()):
                if v is None or isinstance(v, (bool, int, float, str)):
                    out.append('%s=%r' % (k, v))
                elif isinstance(v, (list, tuple)) and k not in ('_children', '_traversed', '_iterated_leaves', '_reversed_path_to_root'):
                    out.append('%s#%d' % (k, len(v)))
                elif k == '_chosen_child' or 'chosen' in k:
                    out.append('%s:set' % k)
            return ','.join(out)
        acc.append('%s{%s}{%s}kids%d' % (type(node.content).__name__, plain(node), plain(node.content), len(node.get_children())))
        for k in node.get_children():
            enc_tree(k, acc)
    for k in sorted(containers):
        acc = []
        enc_tree(containers[k], acc)
        out['template:' + k] = hashlib.sha1(';'.join(acc).encode()).hexdigest()
    for mod in (ST, CT, AT, IN):
        for nm, cls in sorted(vars(mod).items()):
            if isinstance(cls, type) and cls.__module__ == mod.__name__:
                for attr in ('_PERMITTED', '_FORCED_PERMITTED', '_PATTERN', '_TYPES', '_UNION', '_SIMPLE_CONTENT'):
                    if attr in vars(cls):
                        v = vars(cls)[attr]
                        out['%s.%s' % (nm, attr)] = repr([getattr(x, '__name__', x) for x in v] if isinstance(v, (list, tuple)) else getattr(v, '__name__', v))
                if '_XSD_ATTRIBUTES' in vars(cls) and vars(cls)['_XSD_ATTRIBUTES'] is not None:
                    names = []
                    for a in vars(cls)['_XSD_ATTRIBUTES']:
                        try:
                            names.append(a.name)
                        except Exception:
                            names.append('<unreadable>')
                    out['%s.attrs' % nm] = repr(names)
    for nm, cls in sorted(lib.element_classes().items()):
        out['element:' + nm] = '%s:%s' % (cls.TYPE.__name__ if cls.TYPE else None, cls.XSD_TREE is not None)
    return out


def digest_changes(d1, d2):
    """entries that existed and changed (a table that was not there yet and now is = lazy initialisation, allowed)"""
    return sorted(k for k in d1 if k in d2 and d1[k] != d2[k] and d1[k] not in ('None', '[]')) + sorted(k for k in d1 if k not in d2)


# ------------------------------------------------------------------ disturbance
def partners(name):
    """same class, a class sharing a child name, an unrelated class (names)"""
    out = [name]
    m = lib.content_model(name)
    if m is not None:
        for other in lib.element_content_names():
            if other != name and set(lib.content_model(other).names) & set(m.names):
                out.append(other)
                break
    for other in ('note', 'credit', 'direction-type'):
        if other != name and other not in out:
            out.append(other)
            break
    return out


def disturb(name, A_world, tier):
    """drive other instances; returns nothing.  Failing operations and intelligent-choice serialisation included."""
    from . import c05
    c05.warm_up()
    for n in sorted(lib.MODEL['elements']):
        try:
            with lib.Capture():
                e = lib.make(n)
                e.xsd_check = False
                e.to_string()
        except Exception:
            pass
    for pn in partners(name):
        if lib.content_model(pn) is None:
            continue
        al = hist.reduced_alphabet(pn)[:5]
        hs = [[['ADD', a]] for a in al] + [[['ADD', al[0]], ['REMOVE', 0]], [['ADD', al[0]], ['ADD', al[-1]], ['TOSTRING', 1]],
              [['ADD', al[-1]], ['ADD', al[0]], ['REPLACE', 0, al[-1]]], [['ADDF', al[0], 3]], [['DOTSET', al[0]], ['DOTNONE', al[0]], ['TOSTRING', 0]],
              [['ADD', a] for a in al] + [['TOSTRING', 1]]]
        for h in hs:
            try:
                w = hist.run_ops(pn, h)
                with lib.Capture():
                    copy.deepcopy(w.e)
            except Exception:
                pass
    if A_world is not None:
        try:
            with lib.Capture():
                c = copy.deepcopy(A_world.e)
                for k in list(c.attributes):
                    if ':' not in k and k != 'name':
                        setattr(c, k.replace('-', '_'), None)       # deleting on the copy must not reach the original
                for ch in list(c.get_children(ordered=False))[:1]:
                    c.remove(ch)
                m = lib.content_model(name)
                if m is not None:
                    c.add_child(lib.make(m.names[0], xsd_check=False))
        except Exception:
            pass


def explore_histories(name, tier):
    """solver-enumerated histories of <= 2 operations (all operands solver decisions)"""
    A = hist.reduced_alphabet(name)[:6]
    out = []
    eng_budget = 60 if tier == 'quick' else 400
    for k in (1, 2):
        eng = symx.Engine()
        symx.ENGINE = eng

        def harness(eng, k=k):
            w = hist.World(name)
            picker = hist.Picker(eng, A, ['ADD', 'REMOVE', 'REPLACE', 'DOTSET', 'DOTNONE', 'TOSTRING'], (-1, 2), 2, hist.simple_names(A))
            for j in range(k):
                w.apply(picker.pick(w, j))
            return [s.op for s in w.steps]
        for decisions, ops in eng.explore(harness, max_paths=eng_budget):
            if ops != ('TIMEOUT',):
                out.append(ops)
    return out, eng.stats


def pristine(name, probes, histories):
    """probe and history results of fresh instances in a forked copy of this (still unused) process"""
    import os
    import pickle
    r, w = os.pipe()
    pid = os.fork()
    if pid == 0:
        code = 0
        try:
            os.close(r)
            out = ([run_probe(name, p) for p in probes], [history_result(name, h) for h in histories])
            with os.fdopen(w, 'wb') as f:
                pickle.dump(out, f)
        except BaseException:
            code = 1
        finally:
            os._exit(code)
    os.close(w)
    with os.fdopen(r, 'rb') as f:
        data = f.read()
    os.waitpid(pid, 0)
    if not data:
        raise RuntimeError('pristine child failed for ' + name)
    return pickle.loads(data)


def run_unit(name, tier, seed):
    lang.STATS.clear()
    stats = collections.Counter()
    cands, samples = [], []
    probes = value_probes(name, tier) + attr_probes(name, tier)
    histories = []
    if lib.content_model(name) is not None:
        histories, es = explore_histories(name, tier)
        for k, v in es.items():
            stats[k] += v
    # (1) pristine: computed in a forked child, so that this process is still untouched when the disturbance starts
    base_p, base_h = pristine(name, probes, histories)
    # live instance A
    A = None
    if histories:
        longest = max(histories, key=len)
        A = hist.run_ops(name, longest)
        A_before = (c10.lite(A)[0:2], dict(A.e.attributes), [id(c) for c in A.e.get_children(ordered=False)])
    # (2) disturbance
    disturb(name, A, tier)
    d1 = global_digest()
    # (3) afterwards
    if A is not None:
        A_after = (c10.lite(A)[0:2], dict(A.e.attributes), [id(c) for c in A.e.get_children(ordered=False)])
        if A_before != A_after:
            cands.append(dict(cls=name, kind='live-instance-changed-by-other-instances', witness=dict(ops=longest), detail='views/attributes of A differ after work on other instances'))
        full_after = c10.full(A, A.alphabet[:6])
        ref = base_h[histories.index(longest)][0]
        if full_after != ref:
            diff = [k for k in ref if ref[k] != full_after[k]]
            cands.append(dict(cls=name, kind='live-instance-serialises-differently-after-other-instances', witness=dict(ops=longest), detail=str(diff)))
    for p, b in zip(probes, base_p):
        stats['paths'] += 1
        r = run_probe(name, p)
        if r != b:
            cands.append(dict(cls=name, kind='fresh-instance-behaves-differently-after-other-work:%s' % p[0], witness=dict(attr=p[1], value=repr(p[2])),
                              detail='pristine %s, later %s' % (b[:60], r[:60])))
    for h, b in zip(histories, base_h):
        stats['paths'] += 1
        r = history_result(name, h)
        if r != b:
            what = [n for n, x, y in zip(('snapshot', 'next-child acceptance', 'step outcomes'), b, r) if x != y]
            cands.append(dict(cls=name, kind='fresh-instance-history-differs-after-other-work', witness=dict(ops=h), detail='differs in %s' % what))
    d2 = global_digest()
    ch = digest_changes(d1, d2)
    if ch:
        cands.append(dict(cls=name, kind='process-wide-state-changes-after-warm-up', witness=dict(entries=ch[:5]),
                          detail='class-level tables / templates changed while only fresh instances were used: %s' % ch[:5]))
    stats['decisions'] += stats['paths']
    if len(samples) < 1:
        samples.append(dict(element=name, probes=len(probes), histories=len(histories), partners=partners(name)))
    f1.oracle_stats(stats)
    return dict(stats=stats, cands=cands, samples=samples, nontrivial=int(stats['paths']), evaluations=int(stats['paths']),
                funcs=['xmlelement/containers.py:containers', 'xmlelement/xmlelement.py:XMLElement._create_child_container_tree', 'xmlelement/xmlchildcontainer.py:XMLChildContainer.__copy__',
                       'xsd/xsdelement.py:XSDElement.__copy__', 'xsd/xsdsimpletype.py:XSDSimpleType.__init__', 'xsd/xsdcomplextype.py:XSDComplexType.get_xsd_attributes'],
                bounds=dict(histories=len(histories), probes=len(probes)))


def replay(c):
    """re-run the whole unit in this fresh interpreter and look for the same finding"""
    r = run_unit(c['cls'], 'quick', 0)
    for x in r['cands']:
        if x['kind'] == c['kind'] and x['witness'] == c['witness']:
            return True, x['detail']
    r = run_unit(c['cls'], 'thorough', 0)
    for x in r['cands']:
        if x['kind'] == c['kind'] and x['witness'] == c['witness']:
            return True, x['detail']
    return False, 'fresh instances behave as in the pristine process'


REPLAY_ONE_PER_PROCESS = True


def describe():
    return dict(
        rule='per element class, in its own fresh process: pristine behaviour of fresh instances (solver-enumerated histories of <= 2 operations with snapshot and '
             'acceptance vector; z3-chosen valid/invalid value and attribute probes) is compared with the behaviour after heavy use of other instances '
             '(same class, class sharing children, unrelated class, deep copies, every element class and simple type once, failing operations, '
             'intelligent-choice serialisation); a live instance must be unchanged; a digest of process-wide tables must be stable; non-trivial = probes + histories',
        functions=['xmlelement/containers.py', 'xmlelement/xmlelement.py:XMLElement.__init__', 'XMLElement._create_child_container_tree',
                   'xmlelement/xmlchildcontainer.py:XMLChildContainer.__copy__', 'xsd/xsdelement.py:XSDElement.__copy__', 'xsd/xsdsimpletype.py:XSDSimpleType.__init__'],
        bounds=dict(histories='<= 2 operations, <= 60 (400) per class', outside='interleavings finer than whole histories; three or more live instances'),
        assumptions=['the disturbance is a fixed battery, not all possible other work'],
        exhaustive_within_bounds=False)
