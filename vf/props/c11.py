"""C11 — removing a child restores the behaviour the element had without it.  Histories of ADD /
REMOVE / xml_x = None; whenever a removal succeeded, the element is compared with a fresh element
of the class that received only the remaining children in the same relative order."""
from .. import lib, hist, f1
from . import c10

LEVEL = f1.LEVEL
KINDS = ['ADD', 'REMOVE', 'DOTNONE']
# second pass: a final check (to_string with and without intelligent choice) may run before the removal; the intelligent
# search copies the container and re-homes the children, so what it leaves behind is part of the state remove() works on
OBSERVE = ['TOSTRING']


def units(tier):
    return f1.all_units()


def judge(w):
    if not any(s.ok and s.op[0] in ('REMOVE', 'DOTNONE') for s in w.steps):
        w.nontrivial = False
        return []
    removed_something = len(w.dead) > 0
    if not removed_something:
        w.nontrivial = False
        return []
    remaining = w.names(w.live)
    twin_ops = [['ADD', a] for a in remaining]
    tw = hist.run_ops(w.name, twin_ops)
    if any(not s.ok for s in tw.steps):
        w.skipped = True
        w.nontrivial = False
        return []
    w.nontrivial = True
    A = w.alphabet if len(w.alphabet) <= 8 else hist.reduced_alphabet(w.name)[:8]
    ops = [s.op for s in w.steps]
    mine = (c10.full(w, A), hist.acceptance(w.name, ops, A))
    twin = c10.twin_view(w.name, twin_ops, A)
    if mine[0] != twin[0]:
        diff = [k for k in mine[0] if mine[0][k] != twin[0][k]]
        return [('differs-from-fresh-element-with-remaining-children', 'remaining %s; differs in %s: %s vs fresh %s' % (
            remaining, diff, {k: mine[0][k] for k in diff}, {k: twin[0][k] for k in diff}))]
    if mine[1] != twin[1]:
        diff = {k: (mine[1][k], twin[1][k]) for k in mine[1] if mine[1][k] != twin[1][k]}
        return [('next-child-acceptance-differs-after-removal', 'remaining %s; next child (after removal, fresh): %s' % (remaining, diff))]
    return []


def judge_concrete(name, ops, extra):
    w = hist.run_ops(name, ops)
    return judge(w)[:1]


def run_unit(name, tier, seed):
    c10._TWIN.clear()
    red = hist.reduced_alphabet(name)
    full = lib.content_model(name).names
    if tier == 'quick':
        passes = [dict(kinds=KINDS, D=8, budget=2000, alphabet=red),
                  dict(kinds_by_depth=lambda d: KINDS + OBSERVE if d <= 3 else KINDS, D=6, budget=1500, alphabet=red)]
    else:
        passes = [dict(kinds=KINDS, D=10, budget=8000, alphabet=full),
                  dict(kinds_by_depth=lambda d: KINDS + OBSERVE if d <= 3 else KINDS, D=6, budget=1500, alphabet=red)]
    return f1.multi(name, passes, judge, judge_concrete)


def replay(c):
    if c['kind'] == 'hang':
        return (True, 'exceeded 30 s again') if hist.hangs(c['cls'], c['witness']['ops']) else (False, 'finished within the limit')
    for k, d in judge_concrete(c['cls'], c['witness']['ops'], c['witness']):
        if k == c['kind']:
            return True, d
    return False, 'equivalent to the fresh element'


def describe():
    return dict(
        rule='histories of ADD / REMOVE / xml_x = None of <= K operations per class; every history with a successful removal is '
             '(second pass: final checks, with and without intelligent choice, may precede the removal) compared with a fresh element holding the remaining children (snapshot + acceptance vector over <= 8 names); '
             'non-trivial = histories with a removal whose twin could be built',
        functions=['xmlelement/xmlelement.py:XMLElement.remove', 'XMLElement._convert_attribute_to_child', 'XMLElement.add_child',
                   'xmlelement/xmlchildcontainer.py:XMLChildContainer.add_element', 'XMLChildContainer.check_required_elements', 'XMLChildContainer._check_choices_intelligently'],
        bounds=dict(exploration='breadth-first over reachable states, depth <= 8 (10), path budget 2000 (8000) per class; second pass with to_string() / to_string(intelligent_choice=True) allowed at depth <= 3: depth <= 6, 1500 paths', outside='longer histories; histories with forward adds or replacements'),
        assumptions=['if the twin (fresh element + remaining children) cannot be built the case is skipped and counted'],
        exhaustive_within_bounds=True)
