"""C03 — every element class is a faithful translation of its XSD declaration.

Tables are extracted from the freshly imported library and compared with the pinned reference
model by z3: regular-language equivalence for content models and patterns (two inclusion queries
each), finite-relation equality for names / type bindings / attribute tables.
"""
import collections
import json
import os
import time
import z3

from .. import lib, lang, refmodel, rx

LEVEL = 'translation_validation'
MAXLEN = {'quick': 10, 'thorough': 14}


def camel(name):
    return ''.join(p[:1].upper() + p[1:] for p in name.split('-'))


def simple_class_name(tn):
    return 'XSDSimpleType' + camel(tn.split(':')[-1])


def complex_class_name(tn):
    if tn.startswith('#anon:'):
        return 'XSDComplexType' + camel(tn[len('#anon:'):])
    return 'XSDComplexType' + camel(tn)


def units(tier):
    return ['inventory', 'binding', 'binding-behaviour', 'content', 'attributes', 'simple', 'schema-copy'] + (['mutants'] if tier == 'thorough' else ['mutants-sample'])


# ---------------------------------------------------------------- extraction from the library
def particle_of(node):
    from musicxml.xsd.xsdelement import XSDElement
    from musicxml.xsd.xsdindicator import XSDSequence, XSDChoice, XSDGroup
    mi = node.min_occurrences
    ma = None if node.max_occurrences == 'unbounded' else node.max_occurrences
    c = node.content
    if isinstance(c, XSDElement):
        return ['el', c.name, mi, ma]
    kids = [particle_of(k) for k in node.get_children()]
    if isinstance(c, XSDChoice):
        return ['cho', kids, mi, ma]
    if isinstance(c, (XSDSequence, XSDGroup)):
        return ['seq', kids, mi, ma]
    raise TypeError(type(c))


def lib_attr_table(T):
    out = []
    for a in T.get_xsd_attributes():
        try:
            tname = a.type_.__name__
        except Exception as e:
            tname = 'ERR:' + type(e).__name__
        out.append((a.name, tname, bool(a.is_required)))
    return out


def ref_attr_table(c):
    out = []
    for a in c['attrs']:
        if a['type']:
            tname = simple_class_name(a['type'])
        else:
            tname = 'inline:' + json.dumps(a['inline'], sort_keys=True)
        out.append((a['name'], tname, bool(a['required'])))
    return out


def z3_rel_diff(A, B):
    """symmetric difference of two finite relations, decided by z3 over an index sort:
    returns rows only in A, rows only in B.  (finite relational equality; the solver is a
    uniform back end here, the assurance comes from the independent derivation)"""
    rows = sorted(set(A) | set(B), key=repr)
    i = z3.Int('i')
    inA = z3.Or([i == k for k, r in enumerate(rows) if r in set(A)] or [z3.BoolVal(False)])
    inB = z3.Or([i == k for k, r in enumerate(rows) if r in set(B)] or [z3.BoolVal(False)])
    onlyA, onlyB = [], []
    for f, acc in ((z3.And(inA, z3.Not(inB)), onlyA), (z3.And(inB, z3.Not(inA)), onlyB)):
        s = z3.Solver()
        s.add(i >= 0, i < len(rows), f)
        while True:
            lang.STATS['rel.calls'] += 1
            r = str(s.check())
            if r != 'sat':
                lang.STATS['rel.unsat'] += 1
                break
            k = s.model()[i].as_long()
            acc.append(rows[k])
            s.add(i != k)
    return onlyA, onlyB


# ---------------------------------------------------------------- items
def item_inventory():
    cands, n = [], 0
    X = lib.X()
    classes = lib.element_classes()
    names = sorted(lib.MODEL['elements'])
    images = [lib.class_name(x) for x in names]
    # the library's own naming rule, evaluated on the 441 names; z3 asked for a collision
    from musicxml.util.core import convert_to_xml_class_name
    libimg = [convert_to_xml_class_name(x) for x in names]
    ids = {s: k for k, s in enumerate(sorted(set(libimg)))}
    f = z3.Function('img', z3.IntSort(), z3.IntSort())
    s = z3.Solver()
    for k, im in enumerate(libimg):
        s.add(f(k) == ids[im])
    a, b = z3.Ints('a b')
    s.add(a >= 0, a < len(names), b > a, b < len(names), f(a) == f(b))
    lang.STATS['rel.calls'] += 1
    if str(s.check()) == 'sat':
        m = s.model()
        cands.append(dict(cls=names[m[a].as_long()], kind='naming-collision',
                          witness=dict(item='inventory', a=names[m[a].as_long()], b=names[m[b].as_long()])))
    else:
        lang.STATS['rel.unsat'] += 1
    for nme, im, lim in zip(names, images, libimg):
        n += 1
        if im != lim:
            cands.append(dict(cls=nme, kind='naming-rule-differs', witness=dict(item='inventory', name=nme)))
        if lim not in classes:
            cands.append(dict(cls=nme, kind='class-missing', witness=dict(item='inventory', name=nme)))
        else:
            try:
                got = classes[lim](xsd_check=False).name if False else classes[lim].XSD_TREE.name if classes[lim].XSD_TREE is not None else None
            except Exception:
                got = None
            if got is None:
                try:
                    classes[lim]._fill_xsd_tree()
                    got = classes[lim].XSD_TREE.name
                except Exception as e:
                    got = 'ERR:' + type(e).__name__
            if got != nme:
                cands.append(dict(cls=nme, kind='class-serialises-as-other-tag', witness=dict(item='inventory', name=nme), detail=str(got)))
    extra = sorted(set(classes) - set(libimg))
    for c in extra:
        cands.append(dict(cls=c, kind='class-without-declaration', witness=dict(item='inventory', cls=c)))
    return cands, n, [dict(item='inventory', names=len(names), classes=len(classes))]


def item_binding_behaviour():
    """the bound type must behave as the declared one at its boundary: classes whose declared type has no character content
    refuse every non-empty value (also falsy ones), classes with simple content accept a valid value of the declared type and
    refuse a z3-chosen invalid one"""
    from .c04 import invalid_values
    cands, n = [], 0
    classes = lib.element_classes()
    for nme in sorted(lib.MODEL['elements']):
        cn = lib.class_name(nme)
        if cn not in classes or nme in ('link', 'opus', 'part-link', 'image', 'credit-image'):
            continue
        tn, c, st = lib.type_of(nme)
        kw = {k.replace('-', '_'): v for k, v in lib.required_attrs(nme).items() if ':' not in k}
        probes = []
        if st is None:
            probes = [(v, False) for v in (0, 0.0, False, 'x', 1)]
        else:
            good = lib.valid_value(nme)
            probes = [(good, True)] + [(v, False) for v in invalid_values(st)[:2]]
        for v, expect in probes:
            n += 1
            with lib.Capture():
                try:
                    classes[cn](v, **kw)
                    ok = True
                except (TypeError, ValueError):
                    ok = False
                except Exception:
                    continue
            if ok != expect:
                cands.append(dict(cls=nme, kind='bound-type-%s' % ('accepts-value-the-declared-type-forbids' if ok else 'rejects-valid-value'),
                                  witness=dict(item='binding-behaviour', name=nme, value=repr(v))))
                break
    return cands, n, [dict(item='binding-behaviour', probes=n)]


def _lib_binding(cls):
    T = cls.TYPE
    sc = getattr(T, '_SIMPLE_CONTENT', None)
    return T.__name__, (sc.__name__ if sc else None)


def item_binding():
    cands, n = [], 0
    classes = lib.element_classes()
    A, B = [], []
    for nme in sorted(lib.MODEL['elements']):
        cn = lib.class_name(nme)
        if cn not in classes:
            continue
        n += 1
        tn, c, st = lib.type_of(nme)
        if c is not None:
            exp = (nme, complex_class_name(tn), simple_class_name(c['simple_base']) if c['simple_base'] else None)
        else:
            exp = (nme, simple_class_name(tn), None)
        got = (nme,) + _lib_binding(classes[cn])
        A.append(got)
        B.append(exp)
    onlyA, onlyB = z3_rel_diff(A, B)
    for r in onlyA:
        exp = [b for b in B if b[0] == r[0]][0]
        cands.append(dict(cls=r[0], kind='type-binding-differs', witness=dict(item='binding', name=r[0]),
                          detail='library %s schema %s' % (r[1:], exp[1:])))
    return cands, n, [dict(item='binding', sample=A[:2])]


def item_content(tier):
    from musicxml.xmlelement.containers import containers
    cands, n, samples = [], 0, []
    classes = lib.element_classes()
    done = {}
    for nme in sorted(lib.MODEL['elements']):
        tn, c, st = lib.type_of(nme)
        cn = lib.class_name(nme)
        if cn not in classes:
            continue
        cls = classes[cn]
        has_ref = bool(c and c['content'])
        has_lib = cls.TYPE.__name__ in containers
        if has_ref != has_lib:
            cands.append(dict(cls=nme, kind='element-content-presence-differs', witness=dict(item='content', name=nme)))
            continue
        if not has_ref:
            continue
        n += 1
        ref = lang.Model(c['content'])
        sources = [('template', lambda: containers[cls.TYPE.__name__])]
        sources.append(('instance', lambda: cls(xsd_check=True, **{}) .child_container_tree if False else _fresh_tree(cls)))
        for label, get in sources:
            try:
                tree = get()
                p = particle_of(tree)
            except Exception as e:
                cands.append(dict(cls=nme, kind='content-model-unreadable:' + label, witness=dict(item='content', name=nme, source=label), detail=repr(e)))
                continue
            key = (tn, json.dumps(p))
            if key in done:
                ok, w = done[key]
            else:
                names = lang.names_of(p)
                allnames = list(ref.names) + [x for x in names if x not in ref.names]
                sym = lang.symtab(allnames)
                ok, w = lang.equivalent(lang.to_z3re(p, sym), lang.to_z3re(c['content'], sym))
                if not ok:
                    rs = {v: k for k, v in sym.items()}
                    w = [rs[ch] for ch in w]
                done[key] = (ok, w)
            if not ok:
                inlib = _word_in(p, w)
                cands.append(dict(cls=nme, kind='content-language-differs:' + label,
                                  witness=dict(item='content', name=nme, source=label, word=w),
                                  detail='word %s is in %s only' % (w, 'library' if inlib else 'schema')))
            if len(samples) < 3 and label == 'template':
                samples.append(dict(item='content', element=nme, type=tn, library_particle=p, verdict='equivalent' if ok else 'differs'))
    return cands, n, samples


def _fresh_tree(cls):
    e = cls.__new__(cls)
    # build only the container tree of a fresh instance, the way __init__ does
    e._child_container_tree = None
    type(e)._fill_xsd_tree()
    import musicxml.xmlelement.xmlelement as X
    X.XMLElement._create_child_container_tree(e)
    return e._child_container_tree


def _word_in(p, w):
    return lang.DFA(p).accepts(w)


def item_attributes():
    cands, n, samples = [], 0, []
    import musicxml.xsd.xsdcomplextype as CT
    for tn in sorted(lib.MODEL['complex']):
        c = lib.MODEL['complex'][tn]
        cn = complex_class_name(tn)
        T = getattr(CT, cn, None)
        if T is None:
            cands.append(dict(cls=tn, kind='complex-type-class-missing', witness=dict(item='attributes', type=tn)))
            continue
        n += 1
        ref = ref_attr_table(c)
        try:
            got = lib_attr_table(T)
        except Exception as e:
            cands.append(dict(cls=tn, kind='attribute-table-unreadable:' + type(e).__name__, witness=dict(item='attributes', type=tn)))
            continue
        # inline-typed attributes: the library must at least bind *some* type with the same enums (compared by behaviour in C04/C05)
        refn = [(a, t if not t.startswith('inline:') else '*', r) for a, t, r in ref]
        inl = {a for a, t, r in ref if t.startswith('inline:')}
        gotn = [(a, '*' if a in inl else t, r) for a, t, r in got]
        onlyL, onlyR = z3_rel_diff(gotn, refn)
        if onlyL or onlyR:
            cands.append(dict(cls=tn, kind='attribute-table-differs',
                              witness=dict(item='attributes', type=tn, library_only=[list(map(str, r)) for r in onlyL],
                                           schema_only=[list(map(str, r)) for r in onlyR])))
        if len(got) != len(set(a for a, _, _ in got)):
            dup = [a for a, k in collections.Counter(a for a, _, _ in got).items() if k > 1]
            cands.append(dict(cls=tn, kind='attribute-listed-twice', witness=dict(item='attributes', type=tn, names=dup)))
        if len(samples) < 2:
            samples.append(dict(item='attributes', type=tn, rows=[list(map(str, r)) for r in got[:4]]))
    return cands, n, samples


def lib_simple_facets(S):
    t = S.get_xsd_tree()
    out = dict(enums=None, bounds=[], union=None)
    r = t.get_restriction()
    if r is not None:
        en = [c.get_attributes()['value'] for c in r.get_children() if c.tag == 'enumeration']
        out['enums'] = en or None
        out['base'] = r.get_attributes().get('base')
        for c in r.get_children():
            if c.tag in ('minInclusive', 'minExclusive', 'maxInclusive', 'maxExclusive', 'minLength', 'maxLength'):
                out['bounds'].append([c.tag, c.get_attributes()['value']])
    u = t.get_union()
    if u is not None:
        out['union'] = sorted((u.get_attributes().get('memberTypes') or '').split())
    return out


def item_simple(tier):
    import musicxml.xsd.xsdsimpletype as ST
    cands, n, samples = [], 0, []
    for tn in sorted(lib.MODEL['simple']):
        d = lib.MODEL['simple'][tn]
        cn = simple_class_name(tn)
        S = getattr(ST, cn, None)
        if S is None:
            if tn in ('xs:normalizedString',):
                continue
            cands.append(dict(cls=tn, kind='simple-type-class-missing', witness=dict(item='simple', type=tn)))
            continue
        n += 1
        # base chain
        if d.get('base') and not d.get('builtin'):
            exp_base = simple_class_name(d['base'])
            got_base = S.__mro__[1].__name__
            if exp_base != got_base:
                cands.append(dict(cls=tn, kind='simple-base-differs', witness=dict(item='simple', type=tn), detail='%s vs %s' % (got_base, exp_base)))
        try:
            f = lib_simple_facets(S)
        except Exception as e:
            cands.append(dict(cls=tn, kind='simple-facets-unreadable', witness=dict(item='simple', type=tn), detail=repr(e)))
            continue
        is_union = 'union' in d or 'union_inline' in d
        if is_union:
            # hand-maintained union types use two mechanisms (_UNION list, or base class + forced literals):
            # compare the set of member value spaces
            forced = list(getattr(S, '_FORCED_PERMITTED', []) or [])
            if not forced:
                u = S.get_xsd_tree().get_union()
                if u is not None and u.get_children() and u.get_children()[0].tag == 'simpleType':
                    forced = [c.get_attributes()['value'] for c in u.get_children()[0].get_restriction().get_children() if c.tag == 'enumeration']
            got_u = set(x.__name__ for x in (S._UNION or [])) | {'enum:' + x for x in forced}
            if S.__mro__[1].__name__ != 'XSDSimpleType':
                got_u.add(S.__mro__[1].__name__)
            exp_u = set(simple_class_name(x) for x in d.get('union', []))
            for inl in d.get('union_inline', []):
                exp_u |= {'enum:' + x for x in inl.get('enums', [])}
            onlyL, onlyR = z3_rel_diff([(x,) for x in got_u], [(x,) for x in exp_u])
            if onlyL or onlyR:
                cands.append(dict(cls=tn, kind='union-members-differ', witness=dict(item='simple', type=tn),
                                  detail='%s vs %s' % (sorted(got_u), sorted(exp_u))))
            continue
        if not d.get('builtin'):
            if (f['enums'] or None) != (d.get('enums') or None):
                cands.append(dict(cls=tn, kind='enumeration-differs', witness=dict(item='simple', type=tn)))
            refb = [[k, d[k]] for k in ('minInclusive', 'minExclusive', 'maxInclusive', 'maxExclusive', 'minLength', 'maxLength') if k in d]
            if sorted(f['bounds']) != sorted(refb):
                cands.append(dict(cls=tn, kind='bounds-differ', witness=dict(item='simple', type=tn), detail='%s vs %s' % (f['bounds'], refb)))
        # pattern language, step-wise: the pattern string the library will hand to `re` for this type vs the
        # schema's pattern of the same derivation step (own pattern, else the parent's: the library looks one level up)
        own = d.get('patterns')
        if own is None and d.get('base') and d['base'] in lib.MODEL['simple'] and not d.get('enums'):
            own = lib.MODEL['simple'][d['base']].get('patterns')
        isdate = tn == 'xs:date'
        if own or isdate:
            libpat = None
            try:
                libpat = S.get_xsd_tree().get_pattern(S.__mro__[1].get_xsd_tree())
            except Exception:
                pass
            if libpat is None:
                libpat = getattr(S, '_PATTERN', None)
            if libpat is None:
                cands.append(dict(cls=tn, kind='pattern-missing', witness=dict(item='simple', type=tn)))
                continue
            from .. import lex
            impl = rx.sre_to_z3(libpat)
            if isdate:
                up, lo = rx.xsd_to_z3(lex.DATE_LOOSE), rx.xsd_to_z3(lex.DATE_STRICT)
            else:
                alts_up, alts_lo = [], []
                for pth in own[0]:
                    if pth == lex.LANG_2 or pth == lex.LANG_1:
                        alts_up.append(z3.Union(rx.xsd_to_z3(lex.LANG_1), rx.xsd_to_z3(lex.LANG_2)))
                        alts_lo.append(z3.Intersect(rx.xsd_to_z3(lex.LANG_1), rx.xsd_to_z3(lex.LANG_2)))
                    else:
                        alts_up.append(rx.xsd_to_z3(pth))
                        alts_lo.append(rx.xsd_to_z3(pth))
                up, lo = rx.alt(alts_up), rx.alt(alts_lo)
            w1 = rx.included(impl, up, MAXLEN[tier])
            w2 = rx.included(lo, impl, MAXLEN[tier])
            lang.STATS['pattern.calls'] += 2
            for w, kind in ((w1, 'pattern-accepts-invalid'), (w2, 'pattern-rejects-valid')):
                if w is not None:
                    import re
                    real = re.compile(libpat).fullmatch(w) is not None
                    if real != (kind == 'pattern-accepts-invalid'):
                        raise RuntimeError('sre translator disagrees with re on %r for %r' % (w, libpat))
                    cands.append(dict(cls=tn, kind=kind, witness=dict(item='simple', type=tn, text=w)))
                else:
                    lang.STATS['pattern.unsat'] += 1
            if len(samples) < 3:
                samples.append(dict(item='simple', type=tn, library_pattern=libpat[:80], schema_patterns=own,
                                    verdict=[w1, w2]))
    return cands, n, samples


def item_schema_copy():
    import musicxml.generate_classes.utils as U
    cands = []
    cur = refmodel.derive(str(U.musicxml_xsd_path))
    pin = lib.MODEL
    n = 0
    for sect in ('elements', 'complex', 'simple'):
        keys = sorted(set(cur[sect]) | set(pin[sect]))
        for k in keys:
            n += 1
            if json.dumps(cur[sect].get(k), sort_keys=True) != json.dumps(pin[sect].get(k), sort_keys=True):
                cands.append(dict(cls=k, kind='schema-copy-differs:' + sect, witness=dict(item='schema-copy', section=sect, name=k)))
    # /repo's xml.xsd fragments vs the builtin definitions
    import xml.etree.ElementTree as ET
    r = ET.parse(str(U.xml_xsd_path)).getroot()
    for st in r:
        nm = st.get('name')
        if nm is None:
            continue
        n += 1
        b = refmodel.BUILTINS.get('xs:' + nm)
        if b is None:
            cands.append(dict(cls=nm, kind='xml.xsd-unknown-type', witness=dict(item='schema-copy', name=nm)))
    return cands, n, [dict(item='schema-copy', compared=n)]


# ---------------------------------------------------------------- vacuity: grammar mutants must be told apart
def mutants_of(p):
    """single-edit mutants of a particle tree (occurrence bound changed, child dropped, two children
    swapped, seq<->cho)"""
    out = []

    def rec(q, path):
        k = q[0]
        for (mi, ma) in ((q[2] + 1, q[3]), (max(0, q[2] - 1), q[3]), (q[2], None if q[3] is not None else 1),
                         (q[2], (q[3] + 1) if q[3] is not None else None)):
            if (mi, ma) != (q[2], q[3]) and (ma is None or mi <= ma):
                out.append((path, 'occ', mi, ma))
        if k != 'el':
            if len(q[1]) > 1:
                out.append((path, 'flip'))
                for i in range(len(q[1])):
                    out.append((path, 'drop', i))
                for i in range(len(q[1]) - 1):
                    out.append((path, 'swap', i))
            for i, c in enumerate(q[1]):
                rec(c, path + (i,))
    rec(p, ())
    return out


def apply_mut(p, m):
    import copy
    q = copy.deepcopy(p)
    node = q
    for i in m[0]:
        node = node[1][i]
    if m[1] == 'occ':
        node[2], node[3] = m[2], m[3]
    elif m[1] == 'flip':
        node[0] = 'cho' if node[0] == 'seq' else 'seq'
    elif m[1] == 'drop':
        del node[1][m[2]]
    elif m[1] == 'swap':
        i = m[2]
        node[1][i], node[1][i + 1] = node[1][i + 1], node[1][i]
    return q


def item_mutants(full):
    """every mutant must be decided (never unknown); those the DFA says differ must be `sat`"""
    n = told = equiv = 0
    types = sorted(t for t, c in lib.MODEL['complex'].items() if c['content'])
    if not full:
        types = types[::6]
    errors = []
    for tn in types:
        p = lib.MODEL['complex'][tn]['content']
        names = lang.names_of(p)
        sym = lang.symtab(names)
        base = lang.to_z3re(p, sym)
        muts = mutants_of(p)
        if not full:
            muts = muts[::5]
        for m in muts:
            q = apply_mut(p, m)
            ok, w = lang.equivalent(lang.to_z3re(q, sym), base, family='mutant')
            n += 1
            if ok:
                equiv += 1
                # cross-check with the NFA on all words up to length 4 over a few names
                d1, d2 = lang.DFA(p), lang.DFA(q)
                if set(d1.words(names[:8], 4, limit=4000)) != set(d2.words(names[:8], 4, limit=4000)):
                    errors.append('mutant of %s judged equivalent by z3 but NFA differs: %s' % (tn, m))
            else:
                told += 1
                rs = {v: k for k, v in sym.items()}
                ww = [rs[ch] for ch in w]
                if lang.DFA(p).accepts(ww) == lang.DFA(q).accepts(ww):
                    errors.append('z3 witness %s does not separate mutant %s of %s' % (ww, m, tn))
    if errors:
        raise RuntimeError('; '.join(errors[:5]))
    if told == 0:
        raise RuntimeError('vacuity guard: no grammar mutant was distinguished')
    return [], n, [dict(item='mutants', mutants=n, distinguished=told, language_equivalent=equiv)]


def run_unit(unit, tier, seed):
    lang.STATS.clear()
    t = time.time()
    if unit == 'inventory':
        c, n, s = item_inventory()
    elif unit == 'binding':
        c, n, s = item_binding()
    elif unit == 'binding-behaviour':
        c, n, s = item_binding_behaviour()
    elif unit == 'content':
        c, n, s = item_content(tier)
    elif unit == 'attributes':
        c, n, s = item_attributes()
    elif unit == 'simple':
        c, n, s = item_simple(tier)
    elif unit == 'schema-copy':
        c, n, s = item_schema_copy()
    elif unit == 'mutants':
        c, n, s = item_mutants(True)
    elif unit == 'mutants-sample':
        c, n, s = item_mutants(False)
    st = collections.Counter()
    calls = sum(v for k, v in lang.STATS.items() if k.endswith('.calls'))
    st['solver_calls'] = calls
    st['solver_unsat'] = sum(v for k, v in lang.STATS.items() if k.endswith('.unsat'))
    st['solver_sat'] = sum(v for k, v in lang.STATS.items() if k.endswith('.sat'))
    st['solver_s'] = lang.STATS.get('solver_s', 0)
    for k, v in lang.STATS.items():
        if k != 'solver_s':
            st['oracle.' + k] = v
    st['paths'] = n
    st['decisions'] = calls
    return dict(stats=st, cands=c, samples=s, nontrivial=n, evaluations=n, bounds=dict(pattern_maxlen=MAXLEN[tier]))


def replay(c):
    """recompute the single comparison named by the witness, in a fresh interpreter"""
    w = c['witness']
    item = w['item']
    if item == 'inventory':
        cands, _, _ = item_inventory()
    elif item == 'binding':
        cands, _, _ = item_binding()
    elif item == 'binding-behaviour':
        cands, _, _ = item_binding_behaviour()
    elif item == 'content':
        cands, _, _ = item_content('quick')
    elif item == 'attributes':
        cands, _, _ = item_attributes()
    elif item == 'simple':
        cands, _, _ = item_simple('quick')
    elif item == 'schema-copy':
        cands, _, _ = item_schema_copy()
    else:
        return False, 'unknown item'
    for x in cands:
        if x['cls'] == c['cls'] and x['kind'] == c['kind'] and x['witness'] == w:
            return True, x.get('detail', x['kind'])
    return False, 'comparison now agrees'


def describe():
    return dict(
        rule='one obligation per (element name | complex type | simple type | schema section entry); non-trivial = '
             'a comparison that reached the solver (language equivalence / inclusion / relation difference) or a table row compared',
        programs=len(lib.MODEL['elements']) + len(lib.MODEL['complex']) + len(lib.MODEL['simple']),
        functions=['xmlelement/containers.py:containers', 'xmlelement/xmlchildcontainer.py:XMLChildContainer._populate_children',
                   'xsd/xsdcomplextype.py:XSDComplexType.get_xsd_attributes', 'xsd/xsdcomplextype.py:XSDComplexType.get_xsd_indicator',
                   'xsd/xsdattribute.py:XSDAttribute', 'xsd/xsdtree.py:XSDTree.get_pattern', 'util/core.py:convert_to_xml_class_name',
                   'generate_classes/utils.py'],
        bounds=dict(content_models='unbounded (regular-language equivalence)', patterns='strings over SIGMA (%d code points), length <= 10 quick / 14 thorough' % len(rx.SIGMA),
                    tables='finite, complete'),
        exhaustive_within_bounds=True,
        assumptions=['pinned reference model ref/musicxml40.model.json derived once from the pristine schema by vf/refmodel.py',
                     'z3 regex/sequence theory decides the inclusion queries (unknown = harness error)',
                     'pattern comparison is relative to the finite alphabet SIGMA; characters on which XML 1.0 editions disagree are excluded from name classes',
                     'inline-typed attributes (xml:space, xlink:*) are compared by name/required only here; their value spaces are C04/C05 matter'],
        explanation='translation validation of the generated/hand-written classes against an independent reading of the XSD')
