"""C05 — value validation matches the XSD simple types; emitted text is lexically valid.
The real validators (simple-type classes, and element constructors for element content) run on
symbolic ints, floats and strings; per path z3 is asked for an accepted value whose rendering is
outside the reference lexical space (a), or a rejected value inside it (b); element classes whose
type permits no character content must reject every non-empty value (c)."""
import collections
import json
import z3

from .. import lib, symx, rx, lex, refmodel, values, lang, docs
from .c03 import simple_class_name

LEVEL = 'model_checking'
UNI_WS = ['\xa0', '\u3000', '\x0b', '\x1f', '\x85', '\u2003']
FRESH_PROCESS_PER_UNIT = True
REPLAY_ONE_PER_PROCESS = True


class EmptyLex:
    """'lexical space' of an element whose type allows no character content: only the empty string"""
    kind = 'empty'
    ws = 'preserve'
    T = dict(kind='empty')

    def str_ok(self, s, upper=True):
        return s == z3.StringVal('')

    def int_ok(self, n, upper=True):
        return z3.BoolVal(False)

    def fp_ok(self, x, upper=True):
        return z3.BoolVal(False)

    def valid_text(self, text, upper=True):
        return text == ''


_WARM = {}


def precompute():
    """solver-chosen sample values, computed once in the parent process (workers are forked per unit)"""
    if _WARM:
        return
    for tn in sorted(lib.MODEL['simple']):
        try:
            _WARM[tn] = lex.Lex(refmodel.resolve_simple(lib.MODEL, tn)).sample_value()
        except Exception:
            _WARM[tn] = None
    for e in sorted(lib.MODEL['elements']):
        lib.required_attrs(e)
        lib.valid_value(e)


def units(tier):
    precompute()
    ts = ['T:' + t for t in sorted(lib.MODEL['simple']) if t not in ('xs:normalizedString', 'xs:anyURI')]
    es = ['E:' + e for e in sorted(lib.MODEL['elements'])]
    # every target twice, each in its own fresh process: as the first type used ("cold") and after every other
    # simple type has been used ("warm"): validation must not depend on what the process did before
    # attribute positions: per distinct attribute type one (element, attribute) pair, assigned by constructor and by overwriting
    # a valid value (the text an attribute emits is produced by the element, not by the type)
    ats = ['A:%s/%s' % (e, a) for (e, a) in attribute_representatives()]
    return [u + '@cold' for u in ts + es + ats] + [u + '@warm' for u in ts + es]


def attribute_representatives():
    import json
    seen = {}
    for e in sorted(lib.MODEL['elements']):
        tn, c, st = lib.type_of(e)
        if e in ('link', 'opus', 'part-link', 'image', 'credit-image') or not c:
            continue
        for a in c['attrs']:
            if ':' in a['name'] or a['name'] == 'name' or a.get('fixed'):
                continue
            k = json.dumps(refmodel.attr_type(lib.MODEL, a), sort_keys=True)
            seen.setdefault(k, (e, a['name']))
    return sorted(seen.values())


class AttrObj:
    """wraps an element so that the harness reads the emitted text of one attribute"""
    def __init__(self, e, attr):
        self.e, self.attr = e, attr
        self.xsd_check = False

    def to_string(self):
        saved = self.e.xsd_check
        self.e.xsd_check = False
        try:
            return self.e.to_string()
        finally:
            self.e.xsd_check = saved


def target(unit):
    """-> (concrete constructor, Lex, note)"""
    unit = unit.split('@')[0]
    kind, name = unit.split(':', 1)
    if kind == 'A':
        el, attr = name.split('/', 1)
        cls = lib.cls_of(el)
        tn, c, st = lib.type_of(el)
        a = [x for x in c['attrs'] if x['name'] == attr][0]
        T = refmodel.attr_type(lib.MODEL, a)
        py = attr.replace('-', '_')
        kw = {k.replace('-', '_'): v for k, v in lib.required_attrs(el).items() if ':' not in k}
        v0 = lib.valid_value(el)
        first = lib.sample_for(T)

        def ctor(v):
            # overwrite route: a valid value first, then the offered one (constructor route is covered by C04's table)
            e = cls(v0, **dict(kw, **{py: first})) if v0 is not None else cls(**dict(kw, **{py: first}))
            setattr(e, py, v)
            return AttrObj(e, attr)
        return ctor, lex.Lex(T), 'attribute overwrite'

    if kind == 'T':
        import musicxml.xsd.xsdsimpletype as ST
        cls = getattr(ST, simple_class_name(name))
        return (lambda v: cls(v)), lex.Lex(refmodel.resolve_simple(lib.MODEL, name)), 'simple type class'
    cls = lib.cls_of(name)
    tn, c, st = lib.type_of(name)
    kw = {k.replace('-', '_'): v for k, v in lib.required_attrs(name).items() if ':' not in k}
    if name in ('image', 'credit-image', 'link', 'opus'):
        kw = {}

    def ctor(v):
        e = cls(v, **kw)
        return e
    return ctor, (lex.Lex(st) if st is not None else EmptyLex()), 'element constructor'


def encode(v):
    return dict(py=type(v).__name__, repr=repr(v) if not isinstance(v, str) else v)


def decode(d):
    if d['py'] == 'str':
        return d['repr']
    if d['py'] == 'int':
        return int(d['repr'])
    if d['py'] == 'float':
        return float(d['repr'])
    if d['py'] == 'bool':
        return d['repr'] == 'True'
    if d['py'] == 'NoneType':
        return None
    raise ValueError(d)


def concrete(ctor, v):
    """(accepted?, emitted text or exception name) on the real code, no proxies"""
    with lib.Capture():
        try:
            obj = ctor(v)
        except (TypeError, ValueError) as e:
            return False, type(e).__name__
        except Exception as e:
            return None, type(e).__name__
    text = None
    if isinstance(obj, AttrObj):
        try:
            import xml.etree.ElementTree as ET
            text = ET.fromstring(obj.to_string()).attrib.get(obj.attr)
            if text is None:
                return None, 'attribute not emitted'
        except Exception as e:
            return None, 'to_string:' + type(e).__name__
    elif hasattr(obj, 'to_string'):
        try:
            import xml.etree.ElementTree as ET
            saved = obj.xsd_check
            obj.xsd_check = False          # only the text node matters here, not required children
            text = ET.fromstring(obj.to_string()).text or ''
            obj.xsd_check = saved
        except Exception as e:
            return None, 'to_string:' + type(e).__name__
    else:
        # a bare simple-type object emits nothing itself: judge the value, spelled positionally (the element does the rendering)
        from ..docs import render_value
        text = render_value(v) if isinstance(v, float) and v == v and v not in (float('inf'), float('-inf')) else values.render(v)
    return True, text


def analyse(unit, tier, state_label):
    ctor, L, note = target(unit)
    maxlen = values.MAXLEN[tier]
    stats = collections.Counter()
    cands, samples, sig = [], [], []
    for kind in ('int', 'float', 'str'):
        ws = L.ws if kind == 'str' else 'collapse'
        paths, eng, var = values.explore(ctor, kind, ws, maxlen)
        for k, v in eng.stats.items():
            stats[k] += v
        if eng.truncated:
            stats['truncated_units'] += 1
        base = eng.base
        acc = rej = 0
        for p in paths:
            sig.append((kind, p['verdict'], p['exc']))
            if p['verdict'] == 'leak':
                stats['leaks'] += 1
                continue
            if p['verdict'] == 'timeout':
                stats['timeouts'] += 1
                continue
            if p['verdict'] == 'error':
                stats['internal_errors'] += 1
                m = values.solve(base, p['pc'], [], var, kind)
                cands.append(dict(cls=unit, kind='internal-error:' + p['exc'], witness=dict(value=encode(m)), detail='offered as %s' % kind, prop='C19'))
                continue
            # cross-validation of the engine and the stubs: a model of the path must take the same verdict concretely
            m0 = values.solve(base, p['pc'], [], var, kind)
            if m0 is None:
                raise RuntimeError('path condition of a completed path is unsat: %s %s' % (unit, p['decisions']))
            if kind == 'float' and not values.spot_check_float_lemma(m0):
                raise RuntimeError('float repr lemma fails on %r' % m0)
            ok, _ = concrete(ctor, m0)
            if ok is not None and ok != (p['verdict'] == 'accept'):
                raise RuntimeError('symbolic path and concrete run disagree for %s on %r: path %s' % (unit, m0, p['verdict']))
            stats['paths_cross_validated'] += 1
            if p['verdict'] == 'accept':
                acc += 1
                classes = values.invalid_classes(L, kind, var, p['exc'])
                if classes is None:
                    stats['undecided_accepting_paths'] += 1
                    continue
                for label, g in classes:
                    m = values.solve(base, p['pc'], [g], var, kind)
                    stats['oracle_queries'] += 1
                    if m is not None:
                        cands.append(dict(cls=unit, kind='accepts-invalid:%s:%s' % (kind, label), witness=dict(value=encode(m)),
                                          detail='accepted %r; emitted text is not valid for the type' % (m,)))
                    else:
                        stats['oracle_unsat'] += 1
            else:
                rej += 1
                if values.matching_kind(L, kind):
                    f = values.ok_formula(L, kind, var, False)
                    if f is None:
                        continue
                    m = values.solve(base, p['pc'], [f], var, kind)
                    stats['oracle_queries'] += 1
                    if m is not None:
                        cands.append(dict(cls=unit, kind='rejects-valid:' + kind, witness=dict(value=encode(m)),
                                          detail='rejected %r (%s) although it is in the lexical space' % (m, p['exc'])))
                    else:
                        stats['oracle_unsat'] += 1
        if len(samples) < 3:
            samples.append(dict(target=unit, state=state_label, offered_as=kind, paths=len(paths), accepting=acc, rejecting=rej,
                                example_path=[list(map(str, d)) for d in (paths[0]['decisions'] if paths else [])][:8]))
        if acc == 0 and values.matching_kind(L, kind) and L.kind != 'empty' and not any(p['verdict'] == 'leak' for p in paths):
            raise RuntimeError('vacuity guard: no accepting path for %s offered as %s' % (unit, kind))
        if rej == 0 and not (kind == 'str' and L.kind in ('string',) and not L.T.get('enums') and not L.T.get('patterns') and not L.T.get('bounds')) \
                and not (L.kind == 'empty'):
            stats['no_rejecting_path'] += 1
    # concrete sweep: representative numbers through the real code, emitted text judged by the concrete validator
    # (independent of the symbolic rendering model: catches rendering changes the proxies cannot follow)
    for v in (0, 1, -1, 7, 100, 16385, 2 ** 62, 10 ** 30, 2 ** 1024, 10 ** 400, -10 ** 400, 0.0, 0.5, -0.5, 2.25, 1e-05, -1e-05, 1e-07, 1e+16, -1e+16,
              1.5e+300, 123456.75, float('nan'), float('inf')):
        ok, text = concrete(ctor, v)
        stats['paths'] += 1
        if ok is None and not str(text).startswith('to_string:') and text not in ('attribute not emitted',):
            cands.append(dict(cls=unit, kind='internal-error:%s' % text, witness=dict(value=encode(v)), detail='offered %r' % (v,), prop='C19'))
        if ok and text is not None and not L.valid_text(text, True):
            cands.append(dict(cls=unit, kind='accepts-invalid:%s:emitted-text' % type(v).__name__, witness=dict(value=encode(v)),
                              detail='accepted %r, emitted %r' % (v, text)))
    # strings with whitespace that is not XSD whitespace (NBSP, U+3000, VT, U+001F, NEL, EM SPACE) around and inside solver-chosen valid
    # strings: the symbolic part treats get_cleaned_token as the identity on normalised strings, so what the real function does with
    # these characters is decided here by running it; the emitted text is judged by the oracle (XSD collapse knows SP, TAB, LF, CR only)
    if L.kind not in ('decimal', 'integer', 'empty') and (L.T.get('patterns') or L.T.get('enums') or L.kind == 'union'):
        bases = [v for v in docs.representatives(L.T, 4) if isinstance(v, str) and v]
        offered, placed = set(), set()
        for b in bases[:3]:
            for u in UNI_WS:
                forms = [('before', u + b), ('after', b + u), ('inside', b[:1] + u + b[1:])]
                if ' ' in b:
                    forms += [('for-a-space', b.replace(' ', u)), ('next-to-a-space', b.replace(' ', ' ' + u))]
                for place, v in forms:
                    if v in offered or place in placed:
                        continue
                    offered.add(v)
                    ok, text = concrete(ctor, v)
                    stats['paths'] += 1
                    if ok and text is not None and not L.valid_text(text, True):
                        placed.add(place)
                        cands.append(dict(cls=unit, kind='accepts-invalid:str:non-xsd-whitespace-' + place, witness=dict(value=encode(v)),
                                          detail='accepted %r, emitted %r' % (v, text)))
    # concrete kinds: bool, None
    for v in (True, False):
        ok, text = concrete(ctor, v)
        sig.append(('bool', ok, None))
        stats['paths'] += 1
        if ok and not L.valid_text(text if text is not None else str(v), True):
            cands.append(dict(cls=unit, kind='accepts-invalid:bool', witness=dict(value=encode(v)), detail='accepted %r, emitted %r' % (v, text)))
    return stats, cands, samples, sig


def warm_up(exclude=None):
    """instantiate every simple type (but the target) once with a valid value (process-wide lazily filled tables)"""
    import musicxml.xsd.xsdsimpletype as ST

    def depth(tn):
        d, n = lib.MODEL['simple'][tn], 0
        while d.get('base') in lib.MODEL['simple'] and n < 20:
            d = lib.MODEL['simple'][d['base']]
            n += 1
        return n
    for tn in sorted(lib.MODEL['simple'], key=lambda t: (depth(t), t)):      # base types before the types derived from them
        cls = getattr(ST, simple_class_name(tn), None)
        if cls is None or tn == exclude or (isinstance(exclude, (set, frozenset, list, tuple)) and tn in exclude):
            continue
        try:
            if tn not in _WARM:
                _WARM[tn] = lex.Lex(refmodel.resolve_simple(lib.MODEL, tn)).sample_value()
            cls(_WARM[tn])
        except Exception:
            pass


def _own_type(unit):
    kind, name = unit.split('@')[0].split(':', 1)
    if kind == 'T':
        return name
    tn, c, st = lib.type_of(name)
    return (c['simple_base'] if c else tn)


def run_unit(unit, tier, seed):
    lang.STATS.clear()
    state = unit.split('@')[1]
    if state == 'warm':
        warm_up(exclude=_own_type(unit))
    stats, cands, samples, sig = analyse(unit.split('@')[0], tier, state)
    for c in cands:
        c['cls'] = unit.split('@')[0]
        if state == 'warm':
            c['witness'] = dict(c['witness'], state='after every other simple type was used')
    own = [c for c in cands if c.get('prop') != 'C19']
    return dict(stats=stats, cands=own, c19=[c for c in cands if c.get('prop') == 'C19'], samples=samples,
                nontrivial=int(stats['paths']), evaluations=int(stats['paths']),
                funcs=['xsd/xsdsimpletype.py:XSDSimpleType.__init__', 'xsd/xsdsimpletype.py:XSDSimpleType._check_value',
                       'xsd/xsdsimpletype.py:XSDSimpleType._check_value_type', 'xsd/xsdcomplextype.py:XSDComplexType._check_value',
                       'xmlelement/xmlelement.py:XMLElement.value_', 'xmlelement/xmlelement.py:XMLElement._create_et_xml_element'],
                bounds=dict(string_maxlen=values.MAXLEN[tier]))


def replay(c):
    ctor, L, _ = target(c['cls'])
    if c['witness'].get('state'):
        warm_up(exclude=_own_type(c['cls']))
    v = decode(c['witness']['value'])
    ok, text = concrete(ctor, v)
    if c['kind'].startswith('accepts-invalid'):
        if ok and text is not None and not L.valid_text(text, True):
            return True, 'accepted %r and emitted %r' % (v, text)
        return False, 'rejected or text valid (%r, %r)' % (ok, text)
    if c['kind'].startswith('rejects-valid'):
        if ok is False and L.valid_text(values.render(v), False):
            return True, 'rejected %r with %s' % (v, text)
        return False, 'accepted or not valid'
    if c['kind'].startswith('internal-error'):
        return ok is None, str(text)
    return False, 'unknown kind'


def describe():
    return dict(
        rule='per simple type class and per element class, per python kind (int, float, str symbolic; bool concrete): all paths of the '
             'real validator, closed by unsat queries; per accepting path one query for an invalid accepted value, per rejecting path one '
             'for a valid rejected value; every path cross-validated by running a model concretely; each target analysed in a fresh '
             'process and again after all simple types were used; non-trivial = completed paths',
        functions=['xsd/xsdsimpletype.py:XSDSimpleType.__init__', 'XSDSimpleType._check_value', 'XSDSimpleType._check_value_type', 'XSDSimpleType.value (all setters)',
                   'xsd/xsdcomplextype.py:XSDComplexType._check_value', 'xmlelement/xmlelement.py:XMLElement.value_', 'XMLElement.__init__'],
        bounds=dict(ints='unbounded', floats='all of Float64', strings='over SIGMA (%d code points), length <= 10 quick / 14 thorough, whitespace-normalised' % len(rx.SIGMA),
                    outside='characters outside SIGMA, longer strings, non-normalised whitespace in the symbolic part; whitespace that is not XSD whitespace is covered by concrete runs on solver-chosen valid strings only (6 characters x 5 placements)'),
        assumptions=['re.compile(p).fullmatch(symbolic str) is modelled as z3 InRe of the pattern translated from re._parser tree (validated against re on every model)',
                     'get_cleaned_token is modelled as the identity on whitespace-normalised symbolic strings (stub; every path model is re-run through the real function, and the non-XSD whitespace sweep runs the real function)',
                     'CPython: str(int) is -?[0-9]+; repr(float) is exponent-free iff v == 0 or 1e-4 <= |v| < 1e16, nan/inf/-inf otherwise (spot-checked on every model)',
                     'xs:date judged by lexical pattern only (upper) / calendar-safe dates (lower); xs:language by union / intersection of the two editions\' patterns',
                     'numbers are offered as numbers: a numeric string offered to a numeric or union type is not demanded to be accepted'],
        exhaustive_within_bounds=True)
