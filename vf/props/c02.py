"""C02 — schema-valid child sequences, supplied in document order, are accepted, complete and kept
in order.  Words of each content model are generated from the pinned reference model (NFA
proposes, z3 confirms membership and closes each length with an unsat query) and fed to the real
add_child, and through the real parser, in document order."""
import xml.etree.ElementTree as ET
from .. import lib, hist, f1, lang, words

LEVEL = f1.LEVEL
BOUNDS = {'quick': (5, 700), 'thorough': (7, 20000)}


def units(tier):
    return f1.all_units()


def judge_word(name, word, route='api'):
    found = []
    if route in ('api', 'emptied'):
        w = hist.World(name)
        if route == 'emptied':
            # the element held a (repeating) valid word before and every child was removed again: it must behave like a fresh one
            m = lib.content_model(name)
            pre = emptied_prefix(name)
            for a in pre:
                if not w.apply(['ADD', a]).ok:
                    return []
            for _ in pre:
                if not w.apply(['REMOVE', 0]).ok:
                    return []
            w.steps = []
        for a in word:
            st = w.apply(['ADD', a])
            if not st.ok:
                return [('valid-word-rejected:%s' % st.exc, 'adding %s (position %d of %s): %s' % (a, len(w.live), list(word), st.msg[:80]))]
        e = w.e
        od = e.get_children(ordered=True)
        if [id(c) for c in od] != [id(c) for c in w.live]:
            return [('order-changed', 'supplied %s ordered view %s (ids %s)' % (list(word), w.names(od), w.ids(od)))]
        st = w.apply(['TOSTRING', 0])
        if not st.ok:
            return [('valid-word-incomplete:%s' % st.exc, '%s: %s' % (list(word), st.msg[:120]))]
        tags = hist.out_children(st.text)
        if tags != list(word):
            return [('output-order-changed', 'supplied %s output %s' % (list(word), tags))]
        return []
    # parser route: the same word as an ElementTree, through the library's parser
    from musicxml.parser.parser import _parse_node
    root = ET.Element(name, {k: str(v) for k, v in lib.required_attrs(name).items() if ':' not in k})
    for a in word:
        v = lib.valid_value(a)
        c = ET.SubElement(root, a, {k: str(x) for k, x in lib.required_attrs(a).items() if ':' not in k and not _broken(a)})
        if v is not None:
            c.text = str(v)
    with lib.Capture():
        try:
            e = _parse_node(root)
        except Exception as ex:
            tn, where = hist.exc_info(ex)
            if 'xmlchildcontainer' in where or tn.startswith('XMLChildContainer'):
                return [('parser-rejects-valid-word:%s' % tn, '%s' % (list(word),))]
            return []          # value / attribute problems are C04/C05/C09 matter
    names = [c.name for c in e.get_children(ordered=True)]
    if names != list(word):
        return [('parser-order-changed', 'file %s parsed %s' % (list(word), names))]
    return []


_PRE = {}


def emptied_prefix(name):
    """a valid word that repeats a name if the model has one (<= 4 children), else the shortest non-empty word"""
    if name not in _PRE:
        m = lib.content_model(name)
        ws, _, _ = words.by_length(m, hist.reduced_alphabet(name), 4, 300)
        ws = [w for w in ws if w]
        rep = [w for w in ws if len(set(w)) < len(w)]
        _PRE[name] = list((rep or ws or [()])[0])
    return _PRE[name]


def _broken(a):
    return a in ('image', 'credit-image', 'link', 'opus')


def run_unit(name, tier, seed):
    import collections
    lang.STATS.clear()
    m = lib.content_model(name)
    A = hist.reduced_alphabet(name) if tier == 'quick' else m.names
    maxlen, limit = BOUNDS[tier]
    ws, complete, info = words.by_length(m, A, maxlen, limit)
    stats = collections.Counter(paths=0)
    cands, samples = [], []
    first = True
    funcs = set()
    for w in ws:
        for route in ('api', 'parser') + (('emptied',) if len(w) <= 3 else ()):
            if first:
                first = False
                with hist.symx.FuncTrace() as ft:
                    judge_word(name, w, route)
                funcs |= ft.funcs
            for kind, detail in judge_word(name, w, route):
                cands.append(dict(cls=name, kind=kind, witness=dict(word=list(w), route=route), detail=detail))
            stats['paths'] += 1
        if len(samples) < 2 and len(w) == min(maxlen, 3):
            samples.append(dict(cls=name, word=list(w), verdict='accepted, complete, order kept' if not judge_word(name, w) else 'finding'))
    stats['decisions'] = len(ws)
    stats['closures'] = info['closure_unsat']
    if complete < maxlen:
        stats['truncated_units'] = 1
    # unbounded particles not iterated three times within the bound
    r = dict(stats=stats, cands=cands, samples=samples, funcs=sorted(funcs), nontrivial=len([w for w in ws if w]), evaluations=int(stats['paths']),
             bounds=dict(max_word_length=maxlen, complete_up_to_length=complete, words=len(ws), alphabet=len(A), full_alphabet=len(m.names)))
    return finish(r, name)


def reduce_word(name, c):
    m = lib.content_model(name)
    word = list(c['witness']['word'])
    route = c['witness']['route']
    changed = True
    while changed:
        changed = False
        for i in range(len(word)):
            t = word[:i] + word[i + 1:]
            if m.nfa().accepts(t) and c['kind'] in [k for k, _ in judge_word(name, t, route)]:
                word = t
                changed = True
                break
    return dict(c, witness=dict(word=word, route=route))


def finish(r, name):
    out = {}
    for c in r['cands']:
        rc = reduce_word(name, c)
        out.setdefault((rc['kind'], repr(rc['witness'])), rc)
    r['stats']['cands_raw'] = len(r['cands'])
    r['cands'] = list(out.values())
    f1.oracle_stats(r['stats'])
    return r


def replay(c):
    m = lib.content_model(c['cls'])
    w = c['witness']['word']
    if not (m.member(w) and m.nfa().accepts(w)):
        return False, 'word is not in the content model'
    for k, d in judge_word(c['cls'], w, c['witness']['route']):
        if k == c['kind']:
            return True, d
    return False, 'word accepted, complete and in order'


def describe():
    return dict(
        rule='all words of each content model up to the length bound over the alphabet (complete per length, closed by an unsat '
             'query; the longest length may be cut at the word limit), each fed to add_child in document order, to the parser, and (words of <= 3 children) to an element that held a valid word before and was emptied by remove(); '
             'distinct = distinct words; non-trivial = non-empty words',
        functions=['xmlelement/xmlelement.py:XMLElement.add_child', 'XMLElement.to_string', 'XMLElement.get_children',
                   'xmlelement/xmlchildcontainer.py:XMLChildContainer.add_element', 'parser/parser.py:_parse_node'],
        bounds=dict(word_length='<= 5 quick / <= 7 thorough', words_per_class='<= 700 quick / <= 20000 thorough',
                    alphabet='symmetry-reduced quick, full thorough', outside='longer words: unbounded repetition beyond the length bound'),
        assumptions=['children built with xsd_check=False (api route) / as bare elements with a solver-chosen valid value (parser route)',
                     'order compared by child identity in the ordered view and by tag in the output'],
        exhaustive_within_bounds=True)
