"""C10 — a failed operation changes nothing.  F1 histories; for every operation that raises
(including a raising to_string) the element is compared (i) immediately, on the same object, with
its state before the call, and (ii) at the end of the history with a twin element that received
the same history without the failed calls: children views, attributes, value, serialisation or
missing-children verdict, and acceptance of every possible next child."""
import collections
from .. import lib, hist, f1

LEVEL = f1.LEVEL
KINDS = hist.KINDS


def units(tier):
    return f1.all_units()


def lite(w):
    e = w.e
    try:
        od = [id(c) for c in e.get_children(ordered=True)]
    except Exception as ex:
        od = 'raises ' + type(ex).__name__
    return (od, [id(c) for c in e.get_children(ordered=False)], dict(e.attributes), repr(e.value_))


def pre_step(w):
    w._lite = lite(w)


def per_step(w, st):
    # the harness takes the pre-state at the end of the previous step
    before = getattr(w, '_lite', None)
    after = lite(w)
    w._lite = after
    if st.foreign:
        return [('changes-another-element', '%s: %s' % (st.op, st.foreign))]
    if st.ok or before is None:
        return []
    if before != after:
        what = [n for n, a, b in zip(('ordered view', 'insertion-ordered view', 'attributes', 'value'), before, after) if a != b]
        return [('state-changed-by-failed:%s' % st.op[0], '%s raised %s but changed %s' % (st.op, st.exc, what))]
    return []


def full(w, A):
    s = hist.snapshot(w)
    return dict(ordered=w.names(w.e.get_children(ordered=True)), unordered=w.names(w.e.get_children(ordered=False)),
                attributes=s['attributes'], value=s['value'], text=_strip_serials(s['text']), exc=s.get('exc'), missing=s.get('missing'))


def _strip_serials(t):
    import re
    return None if t is None else re.sub(r'c\d+', 'c#', t)


_TWIN = {}


def twin_view(name, ops, A):
    key = (name, repr(ops))
    if key not in _TWIN:
        if len(_TWIN) > 20000:
            _TWIN.clear()
        w = hist.run_ops(name, ops)
        _TWIN[key] = (full(w, A), hist.acceptance(name, ops, A))
    return _TWIN[key]


def judge(w):
    failed = [i for i, s in enumerate(w.steps) if not s.ok]
    if not failed:
        w.nontrivial = False
        return []
    w.nontrivial = True
    ops = [s.op for s in w.steps]
    good = [s.op for s in w.steps if s.ok]
    # indices in REMOVE/REPLACE refer to the live list, which failed operations do not change: same indices are valid
    A = w.alphabet if len(w.alphabet) <= 8 else hist.reduced_alphabet(w.name)[:8]
    mine = (full(w, A), hist.acceptance(w.name, ops, A))
    twin = twin_view(w.name, good, A)
    if mine[0] != twin[0]:
        diff = [k for k in mine[0] if mine[0][k] != twin[0][k]]
        return [('differs-from-history-without-failed-calls', 'failed %s; differs in %s: %s vs %s' % ([ops[i] for i in failed], diff,
                 {k: mine[0][k] for k in diff}, {k: twin[0][k] for k in diff}))]
    if mine[1] != twin[1]:
        diff = {k: (mine[1][k], twin[1][k]) for k in mine[1] if mine[1][k] != twin[1][k]}
        return [('next-child-acceptance-differs', 'failed %s; next child (with failed calls, without): %s' % ([ops[i] for i in failed], diff))]
    return []


def judge_concrete(name, ops, extra):
    found = []
    w = hist.World(name)
    w._lite = lite(w)
    for op in ops:
        st = w.apply(list(op))
        found.extend(per_step(w, st))
    found.extend(judge(w))
    return found


def run_unit(name, tier, seed):
    _TWIN.clear()
    passes = f1.std_passes(name, tier, 0.6 if tier == 'quick' else 0.4)
    return f1.multi(name, passes, judge, judge_concrete, per_step=per_step, pre_step=pre_step)


def replay(c):
    if c['kind'] == 'hang':
        return (True, 'exceeded 30 s again') if hist.hangs(c['cls'], c['witness']['ops']) else (False, 'finished within the limit')
    for k, d in judge_concrete(c['cls'], c['witness']['ops'], c['witness']):
        if k == c['kind']:
            return True, d
    return False, 'state equal to the history without the failed calls'


def describe():
    return dict(
        rule='every operation from every reachable state per class (breadth-first); every raising call is compared with the pre-state on the same '
             'object and, at the end, with a twin that received the history without the failed calls (snapshot + acceptance vector over '
             '<= 8 child names); non-trivial = histories with at least one failed call',
        functions=['xmlelement/xmlelement.py:XMLElement.add_child', 'XMLElement.remove', 'XMLElement.replace_child', 'XMLElement.__setattr__',
                   'XMLElement.to_string', 'xmlelement/xmlchildcontainer.py:XMLChildContainer.add_element', 'XMLChildContainer._check_choices_intelligently',
                   'XMLChildContainer.duplicate', 'XMLChildContainer._update_requirements_in_path'],
        bounds=dict(exploration='breadth-first over reachable states as C01, budgets 0.6 / 0.4 of C01', acceptance_vector='ADD of each of <= 8 names',
                    outside='longer histories; attribute/value assignment failures are covered by C04/C05 harnesses'),
        assumptions=['children built with xsd_check=False', 'serial marks of children are masked when texts are compared'],
        exhaustive_within_bounds=True)
