"""C04 — the attribute interface of each element is exactly the schema's.
Per element class and attribute name (every declared name, plus reserved python-side names and
foreign names), per route (constructor keyword, dot assignment, parser), values chosen by z3 from the
reference type's lexical space and from its complement; one symbolic exploration per distinct
attribute type checks the emitted attribute text."""
import collections
import xml.etree.ElementTree as ET
import z3

from .. import lib, docs, lex, refmodel, rx, lang, hist, values, symx

LEVEL = 'model_checking'
RESERVED = []      # python-side properties of the element API (xsd_check, value_, level ...) are not schema attributes: not judged
FOREIGN = ['foo', 'no-such-attribute', 'xml_foo']
ROUTES = ('constructor', 'dot', 'parser')


def units(tier):
    from . import c05
    c05.precompute()          # sample values for the warm-up, computed once in the parent
    return sorted(lib.MODEL['elements'])


_INV = {}


def invalid_values(T, n=2):
    """solver-chosen strings / numbers outside the lexical space of T (upper reading)"""
    import json
    key = json.dumps(T, sort_keys=True)
    if key in _INV:
        return _INV[key]
    L = lex.Lex(T)
    out = []
    if T.get('enums'):
        # literals of related enumerations (types that share a literal with T) that T itself does not allow
        mine = set(T['enums'])
        pool = []
        related = sorted(((-len(mine & set(d2.get('enums') or [])), tn2) for tn2, d2 in lib.MODEL['simple'].items() if mine & set(d2.get('enums') or [])))
        for _, tn2 in related:
            pool += [x for x in lib.MODEL['simple'][tn2]['enums'] if x not in mine and x not in pool]
        out += pool[:3]
    v = z3.String('v')
    s = z3.Solver()
    s.set('timeout', 60000)
    plain = z3.Plus(rx.cls([c for c in rx.SIGMA if c.isascii() and (c.isalnum() or c in '#.-')]))
    s.add(z3.Not(L.str_ok(v, True)), z3.InRe(v, plain), z3.Length(v) <= 8)
    if L.kind in ('decimal', 'integer'):
        n_ = z3.Int('n')
        f = L.int_ok(n_, True)
        s2 = z3.Solver()
        s2.add(z3.Not(f), n_ >= -10 ** 6, n_ <= 10 ** 6)
        if str(s2.check()) == 'sat':
            out.append(values.canonical(s2, n_, 'int'))
        out.append('x')
    else:
        while len(out) < n + (3 if T.get('enums') else 0) and str(s.check()) == 'sat' and len(out) < 5:
            val = lex.canonical_str(s, v)
            out.append(val)
            s.add(v != z3.StringVal(val))
    _INV[key] = out
    return out


def fresh(name):
    cls = lib.cls_of(name)
    v = lib.valid_value(name)
    return cls(v) if v is not None else cls()


def assign(name, attr, value, route):
    """-> (element or None, raised exception name or None, raised object)"""
    cls = lib.cls_of(name)
    py = docs.py_attr(attr)
    with lib.Capture():
        try:
            if route == 'constructor':
                v = lib.valid_value(name)
                e = cls(v, **{py: value}) if v is not None else cls(**{py: value})
            elif route == 'dot':
                e = fresh(name)
                setattr(e, py, value)
            else:
                from musicxml.parser.parser import _et_xml_to_music_xml
                key = attr
                if attr.startswith('xml:'):
                    key = '{%s}%s' % (docs.XMLNS, attr[4:])
                elif attr.startswith('xlink:'):
                    key = '{%s}%s' % (docs.XLINK, attr[6:])
                node = ET.Element(name, {key: docs.render_value(value)})
                v = lib.valid_value(name)
                if v is not None:
                    node.text = docs.render_value(v)
                e = _et_xml_to_music_xml(node)
            return e, None, None
        except Exception as ex:
            return None, type(ex).__name__, ex


def serialised_attrs(e):
    saved = e.xsd_check
    e.xsd_check = False
    try:
        with lib.Capture():
            text = e.to_string()
    finally:
        e.xsd_check = saved
    root = ET.fromstring(text.replace('<%s ' % e.name, '<%s xmlns:xml_="%s" xmlns:xlink="%s" ' % (e.name, 'urn:x', docs.XLINK), 1)
                         if ('xlink:' in text) else text)
    return {docs.qname(k): v for k, v in root.attrib.items() if not k.startswith('{urn:x}')}


def judge_pair(name, a, tier):
    """declared attribute a (record from the model) of element name"""
    found = []
    attr = a['name']
    T = refmodel.attr_type(lib.MODEL, a)
    L = lex.Lex(T)
    good = ([a['fixed']] if a.get('fixed') else docs.representatives(T, 3 if tier == 'quick' else 8))[:8]
    bad = invalid_values(T)
    for route in ROUTES:
        for v in good:
            e, exc, ex = assign(name, attr, v, route)
            if e is None:
                kind = 'internal-error' if hist.classify_exception(ex, 'ATTR') else 'valid-attribute-rejected'
                found.append(('%s:%s:%s' % (kind, route, exc), '%s=%r via %s: %s' % (attr, v, route, str(ex)[:100])))
                break
            try:
                out = serialised_attrs(e)
            except Exception as ex2:
                found.append(('serialisation-fails:%s' % type(ex2).__name__, '%s=%r via %s' % (attr, v, route)))
                break
            if attr not in out:
                found.append(('attribute-not-serialised-under-schema-name:%s' % route, '%s=%r via %s: output has %s' % (attr, v, route, sorted(out))))
                break
            if not docs.same_text(out[attr], docs.render_value(v), T) or not L.valid_text(out[attr], True):
                found.append(('attribute-text-altered:%s' % route, '%s=%r via %s: emitted %r' % (attr, v, route, out[attr])))
                break
            if set(out) - {attr} - set(lib.required_attrs(name)):
                found.append(('extra-attributes-serialised:%s' % route, '%s via %s: %s' % (attr, route, sorted(out))))
                break
        for v in bad:
            if route == 'parser' and not isinstance(v, str):
                continue
            if a.get('fixed'):
                continue
            e, exc, ex = assign(name, attr, v, route)
            if e is not None:
                out = serialised_attrs(e)
                if attr in out and not L.valid_text(out[attr], True):
                    found.append(('invalid-attribute-value-accepted:%s' % route, '%s=%r via %s emitted %r' % (attr, v, route, out.get(attr))))
                    break
                if attr not in out:
                    # neither an error nor a stored attribute: the assignment was silently ignored
                    found.append(('invalid-attribute-value-silently-ignored:%s' % route, '%s=%r via %s: no error, attribute absent from the output' % (attr, v, route)))
                    break
            elif hist.classify_exception(ex, 'ATTR'):
                found.append(('internal-error:%s:%s' % (route, exc), '%s=%r: %s' % (attr, v, str(ex)[:100])))
                break
    # overwriting must behave like assigning to a fresh element: same acceptance, same stored value, same emitted text
    if good and not found and ':' not in attr and attr != 'name':
        py = docs.py_attr(attr)
        seconds = list(good) + list(bad)
        for v in good:
            if isinstance(v, int) and not isinstance(v, bool):
                seconds += [float(v)] + ([bool(v)] if v in (0, 1) else []) + [str(v)]
            elif isinstance(v, float) and v == int(v):
                seconds += [int(v)]
        for first in good[:2]:
            for second in seconds:
                if a.get('fixed'):
                    continue
                def run(pre):
                    with lib.Capture():
                        e = fresh(name)
                        try:
                            if pre:
                                setattr(e, py, first)
                            setattr(e, py, second)
                        except Exception as ex:
                            return ('raises', type(ex).__name__, repr(e.attributes.get(attr)) if pre else None)
                        return ('ok', repr(e.attributes.get(attr)), serialised_attrs(e).get(attr))
                try:
                    r1, r2 = run(True), run(False)
                except Exception:
                    continue
                if r1[0] != r2[0] or (r1[0] == 'ok' and r1 != r2):
                    found.append(('overwrite-differs-from-fresh-assignment', '%s: %r then %r gives %s, on a fresh element %s' % (attr, first, second, r1, r2)))
                    break
                if r1[0] == 'raises' and r1[2] != repr(first):
                    found.append(('failed-overwrite-changes-attribute', '%s: %r then %r left %s' % (attr, first, second, r1[2])))
                    break
            if found:
                break
    # falsy but valid values (0, 0.0, '') must be stored, read back and serialised like any other
    if not found and ':' not in attr and attr != 'name' and not a.get('fixed'):
        py = docs.py_attr(attr)
        for v in (0, 0.0, ''):
            if not L.valid_text(docs.render_value(v), False):
                continue
            with lib.Capture():
                try:
                    e = fresh(name)
                    setattr(e, py, v)
                except Exception:
                    continue
                got = getattr(e, py)
                out = serialised_attrs(e)
            if got is None or got != v or type(got) is not type(v):
                found.append(('attribute-read-differs-from-stored', '%s=%r reads back %r' % (attr, v, got)))
                break
            if attr not in out:
                found.append(('stored-attribute-not-serialised', '%s=%r' % (attr, v)))
                break
    # overwrite / remove / failed overwrite keeps the old value
    if good and not found and ':' not in attr:
        py = docs.py_attr(attr)
        try:
            with lib.Capture():
                e = fresh(name)
                setattr(e, py, good[0])
                before = dict(e.attributes)
                if bad and not a.get('fixed'):
                    try:
                        setattr(e, py, bad[0])
                    except Exception:
                        pass
                    if dict(e.attributes) != before and not L.valid_text(docs.render_value(bad[0]), True):
                        found.append(('failed-assignment-changes-attributes', '%s: %r then %r -> %s' % (attr, good[0], bad[0], dict(e.attributes))))
                if getattr(e, py) != e.attributes.get(attr):
                    found.append(('attribute-read-differs-from-stored', '%s' % attr))
                setattr(e, py, good[-1])
                if e.attributes.get(attr) != good[-1]:
                    found.append(('overwrite-not-stored', '%s' % attr))
                setattr(e, py, None)
                if attr in e.attributes or attr in serialised_attrs(e):
                    found.append(('none-does-not-remove', '%s' % attr))
                if getattr(e, py) is not None:
                    found.append(('removed-attribute-still-readable', '%s' % attr))
        except Exception as ex:
            found.append(('set-overwrite-remove-raises:%s' % type(ex).__name__, '%s: %s' % (attr, str(ex)[:100])))
    return found[:2]


def judge_undeclared(name, attr):
    found = []
    for route in ROUTES:
        e, exc, ex = assign(name, attr, 'x', route)
        if e is None:
            if hist.classify_exception(ex, 'ATTR'):
                found.append(('internal-error:%s:%s' % (route, exc), '%s via %s: %s' % (attr, route, str(ex)[:100])))
            continue
        try:
            out = serialised_attrs(e)
        except Exception:
            out = {}
        stored = attr in e.attributes or docs.py_attr(attr) in e.attributes
        found.append(('undeclared-attribute-accepted:%s' % route, '%s via %s: stored=%s serialised=%s' % (attr, route, stored, attr in out)))
    return found[:2]


def judge_required(name):
    found = []
    req = [k for k in lib.required_attrs(name)]
    for k in req:
        if ':' in k:
            continue
        try:
            with lib.Capture():
                spec = docs.minimal(name)
                e = docs.build_api(spec)
                setattr(e, docs.py_attr(k), None)
                try:
                    e.to_string()
                    found.append(('serialises-without-required-attribute', k))
                except Exception as ex:
                    if hist.classify_exception(ex, 'TOSTRING'):
                        found.append(('internal-error:to_string:%s' % type(ex).__name__, k))
        except Exception:
            pass
    return found


_RENDERED = set()


def symbolic_rendering(name, a, tier, stats):
    """one symbolic exploration per distinct attribute type: accepted value -> emitted attribute text valid"""
    import json
    T = refmodel.attr_type(lib.MODEL, a)
    key = json.dumps(T, sort_keys=True)
    L = lex.Lex(T)
    cls = lib.cls_of(name)
    py = docs.py_attr(a['name'])
    v0 = lib.valid_value(name)
    found = []

    def ctor(v):
        return cls(v0, **{py: v}) if v0 is not None else cls(**{py: v})
    for kind in ('int', 'float', 'str'):
        ws = L.ws if kind == 'str' else 'collapse'
        paths, eng, var = values.explore(ctor, kind, ws, values.MAXLEN[tier], max_paths=200)
        for k, v in eng.stats.items():
            stats[k] += v
        for p in paths:
            if p['verdict'] == 'leak':
                stats['leaks'] += 1
            if p['verdict'] != 'accept':
                continue
            classes = values.invalid_classes(L, kind, var, p['exc'])
            if classes is None:
                continue
            for label, g in classes:
                m = values.solve(eng.base, p['pc'], [g], var, kind)
                stats['oracle_queries'] += 1
                if m is not None:
                    e, exc, ex = assign(name, a['name'], m, 'constructor')
                    if e is not None:
                        out = serialised_attrs(e)
                        if a['name'] in out and not L.valid_text(out[a['name']], True):
                            found.append(('accepted-attribute-value-emits-invalid-text:%s:%s' % (kind, label), '%s=%r emitted %r' % (a['name'], m, out[a['name']])))
    return found


def run_unit(name, tier, seed):
    lang.STATS.clear()
    stats = collections.Counter()
    cands, samples = [], []
    from . import c05
    tn, c, st = lib.type_of(name)
    own = {a['type'] for a in (c['attrs'] if c else []) if a.get('type')}
    c05.warm_up(exclude=own)  # every other simple type has been used once: the interface must not depend on process history
    declared = c['attrs'] if c else []
    dnames = {a['name'] for a in declared}
    import json
    for a in declared:
        stats['paths'] += 1
        try:
            f = judge_pair(name, a, tier)
        except Exception as ex:
            f = [('harness-could-not-judge:%s' % type(ex).__name__, str(ex)[:100])]
        for kind, detail in f:
            cands.append(dict(cls=name, kind=kind, witness=dict(attr=a['name']), detail=detail))
        if len(samples) < 1:
            samples.append(dict(element=name, attribute=a['name'], routes=list(ROUTES), verdict=[k for k, _ in f] or 'as the schema says'))
    for attr in RESERVED + FOREIGN:
        if attr in dnames or docs.py_attr(attr) in {docs.py_attr(x) for x in dnames}:
            continue
        stats['paths'] += 1
        for kind, detail in judge_undeclared(name, attr):
            cands.append(dict(cls=name, kind=kind, witness=dict(attr=attr), detail=detail))
    for kind, detail in judge_required(name):
        cands.append(dict(cls=name, kind=kind, witness=dict(attr=detail), detail=detail))
    # symbolic rendering: the first declared attribute of each type, for a rotating subset of classes
    done = set()
    for a in declared:
        if ':' in a['name'] or a.get('fixed'):
            continue
        T = refmodel.attr_type(lib.MODEL, a)
        key = json.dumps(T, sort_keys=True)
        if key in done:
            continue
        done.add(key)
        if tier == 'quick' and (hash_name(name + key) % 6) != 0:
            continue
        stats['symbolic_attribute_explorations'] += 1
        try:
            for kind, detail in symbolic_rendering(name, a, tier, stats):
                cands.append(dict(cls=name, kind=kind, witness=dict(attr=a['name']), detail=detail))
        except symx.SolverUnknown:
            stats['solver_unknown_skipped'] += 1
    from .. import f1
    f1.oracle_stats(stats)
    stats['decisions'] += stats['paths']
    return dict(stats=stats, cands=cands, samples=samples, nontrivial=int(stats['paths']), evaluations=int(stats['paths']),
                funcs=['xmlelement/xmlelement.py:XMLElement._set_attributes', 'XMLElement._check_attribute', 'XMLElement.__setattr__', 'XMLElement.__getattr__',
                       'XMLElement._check_required_attributes', 'XMLElement._create_et_xml_element', 'parser/parser.py:_et_xml_to_music_xml',
                       'xsd/xsdattribute.py:XSDAttribute.__call__', 'util/core.py:replace_key_underline_with_hyphen'],
                bounds=dict(values_per_attribute='3 valid / 2 invalid quick; 8 / 2 thorough', undeclared_names=len(RESERVED + FOREIGN)))


def hash_name(s):
    import hashlib
    return int(hashlib.sha1(s.encode()).hexdigest()[:8], 16)


def replay(c):
    name = c['cls']
    attr = c['witness']['attr']
    tn, cx, st = lib.type_of(name)
    from . import c05
    c05.warm_up(exclude={a['type'] for a in (cx['attrs'] if cx else []) if a.get('type')})
    for tier in ('quick', 'thorough'):
        found = []
        for a in (cx['attrs'] if cx else []):
            if a['name'] == attr:
                found += judge_pair(name, a, tier)
                if c['kind'].startswith('accepted-attribute-value-emits'):
                    found += symbolic_rendering(name, a, tier, collections.Counter())
        if not found:
            found += judge_undeclared(name, attr)
        found += [(k, d) for k, d in judge_required(name) if d == attr]
        for k, d in found:
            if k == c['kind']:
                return True, d
    return False, 'interface as the schema says'


def describe():
    return dict(
        rule='per element class: every declared attribute x 3 routes x solver-chosen valid and invalid values, then set / failed overwrite / overwrite / '
             'None on one instance; reserved and foreign names on 3 routes; required attributes removed one at a time before to_string; one symbolic '
             'exploration (int, float, str) per distinct attribute type on a rotating sixth of the classes (all in thorough); non-trivial = (class, name) pairs',
        functions=['xmlelement/xmlelement.py:XMLElement._set_attributes', 'XMLElement._check_attribute', 'XMLElement.__setattr__', 'XMLElement.__getattr__',
                   'XMLElement._check_required_attributes', 'parser/parser.py:_et_xml_to_music_xml', 'xsd/xsdattribute.py:XSDAttribute'],
        bounds=dict(pairs='all declared (class, attribute) pairs', values='representatives chosen by z3 inside and outside the lexical space',
                    outside='combinations of several attributes in one call; all values (covered per type by C05)'),
        assumptions=['each class is judged in a fresh process in which every simple type has been used once (process history must not matter; the cold state is C05\'s)', 'the (class, name) dimension is a finite table: enumerated; the solver contributes the values and the per-type symbolic exploration'],
        exhaustive_within_bounds=True)
