"""C07 — add_child never accepts a child that makes the element impossible to complete.
Add-only F1 histories; after every successful addition the multiset of held children must be
extendable to the multiset of a word of the content model: Parikh-image feasibility in linear integer
arithmetic (unbounded word length), decided by z3.  Candidates are confirmed on the real code."""
import collections
import itertools
from .. import lib, hist, f1, lang

LEVEL = f1.LEVEL
KINDS = ['ADD', 'ADDF', 'DOTSET', 'DOTVAL']
# second pass: additions that follow removals (remove() / xml_x = None) -- an addition accepted after an earlier child was
# taken out is still an accepted addition, and the choice/requirement state remove() leaves behind is what decides it
REMOVALS = ['ADD', 'REMOVE', 'DOTNONE']


def units(tier):
    return f1.all_units()


def per_step(w, st):
    if not st.ok or st.op[0] not in KINDS:
        return []
    M = collections.Counter(w.names(w.live))
    if w.model.completable(dict(M)):
        return []
    return [('accepted-dead-end', 'after %s the element holds %s, which no word of the content model contains' % (st.op, dict(M)))]


def judge(w):
    return []


def confirmed(name, ops):
    """real-code confirmation of a dead end: to_string raises and no <= 2 further additions make it succeed"""
    A = lib.content_model(name).names
    for extra in itertools.chain([()], itertools.product(A[:12], repeat=1), itertools.product(A[:8], repeat=2)):
        w = hist.run_ops(name, ops)
        ok = True
        for a in extra:
            if not w.apply(['ADD', a]).ok:
                ok = False
                break
        if ok and w.apply(['TOSTRING', 0]).ok:
            text_ok = True
            return False, 'library completes it with %s' % (list(extra),)
    return True, 'to_string raises and no extension by <= 2 children serialises'


def judge_concrete(name, ops, extra):
    found = []
    hist.run_ops(name, ops, after=lambda w, st: found.extend(per_step(w, st)))
    return found[:1]


def run_unit(name, tier, seed):
    red = hist.reduced_alphabet(name)
    full = lib.content_model(name).names
    if tier == 'quick':
        passes = [dict(kinds_by_depth=lambda d: KINDS if d <= 2 else ['ADD', 'DOTSET'], D=8, budget=3000, fwd=(-1, 2), alphabet=red),
                  dict(kinds_by_depth=lambda d: REMOVALS if d <= 3 else ['ADD'], D=6, budget=2500, fwd=(-1, 2), alphabet=red)]
    else:
        passes = [dict(kinds_by_depth=lambda d: KINDS if d <= 3 else ['ADD', 'DOTSET'], D=10, budget=40000, fwd=(-2, 4), alphabet=full),
                  dict(kinds_by_depth=lambda d: REMOVALS if d <= 3 else ['ADD'], D=6, budget=2500, fwd=(-1, 2), alphabet=red)]
    r = f1.multi(name, passes, judge, judge_concrete, per_step=per_step)
    keep = []
    for c in r['cands']:
        ok, why = confirmed(name, c['witness']['ops'])
        if ok:
            keep.append(c)
        else:
            r['stats']['oracle_disagreements'] += 1
            r.setdefault('notes', []).append('%s %s: %s' % (name, c['witness'], why))
    r['cands'] = keep
    return r


def replay(c):
    if c['kind'] == 'hang':
        return (True, 'exceeded 30 s again') if hist.hangs(c['cls'], c['witness']['ops']) else (False, 'finished within the limit')
    f = judge_concrete(c['cls'], c['witness']['ops'], c['witness'])
    if not any(k == c['kind'] for k, _ in f):
        return False, 'multiset is completable / addition rejected'
    ok, why = confirmed(c['cls'], c['witness']['ops'])
    return ok, why


def describe():
    return dict(
        rule='add-only histories (ADD, forward ADD, dot assignment of a child or a value) of <= K operations per class; after every '
             'accepted addition the Parikh formula of the content model is asked whether some word contains the held multiset; '
             'a second pass interleaves remove() / xml_x = None with the additions and judges every accepted addition the same way; '
             'non-trivial = every history',
        functions=['xmlelement/xmlelement.py:XMLElement.add_child', 'XMLElement.remove', 'XMLElement.__setattr__', 'xmlelement/xmlchildcontainer.py:XMLChildContainer.add_element',
                   'XMLChildContainer._update_requirements_in_path', 'XMLChildContainer.max_is_reached', 'XMLChildContainer.duplicate'],
        bounds=dict(exploration='breadth-first over reachable states, depth <= 8 (10 thorough), path budget 3000 (40000) per class; forward adds and value assignments from states at depth <= 2 (3); add/remove pass (same in both tiers): depth <= 6, 2500 paths, reduced alphabet, removals from states at depth <= 3',
                    oracle='unbounded word length (linear integer arithmetic)', outside='longer histories'),
        assumptions=['dead end is judged at the level of the schema (multiset containment), then confirmed on the real code by to_string and a bounded completion search (<= 2 further children)'],
        exhaustive_within_bounds=True)
