"""C16 — serialisation is well-formed, escaping-safe, deterministic and side-effect free.
(i)  strings over classes of XML characters (markup, quotes, ']]>', TAB/LF, NBSP, non-BMP, empty) in every
     free-text element and free-string attribute position: a standard XML parser must recover exactly
     the stored strings (escaping itself is xml.etree's: the check is that values reach it unmodified);
(ii) F1 exploration with to_string calls interleaved: a repeated call returns the same text, and the
     history with the calls behaves like the history without them (twin);
(iii) a subtree serialises to the same content alone as inside its parent, also after the whole tree and
     the subtree have been serialised and the subtree has then been edited (value or attribute)."""
import collections
import itertools
import textwrap
import xml.etree.ElementTree as ET

from .. import lib, hist, f1, docs, refmodel, lang
from . import c10, c08

LEVEL = f1.LEVEL
CHARS = ['a', '<', '>', '&', '"', "'", ']', '\t', '\n', ' ', ' ', 'é', '\U0001F3B5']
FIXED = ['', ']]>', '<!--', '&amp;', ' a ', 'a\n\nb', '<a b="c">']


def strings(tier):
    out = list(FIXED)
    for n in (1, 2) if tier == 'quick' else (1, 2, 3):
        if n == 3:
            sub = ['a', '<', '&', '"', '\n', ' ', '\U0001F3B5']
            out += [''.join(p) for p in itertools.product(sub, repeat=3)]
        else:
            out += [''.join(p) for p in itertools.product(CHARS, repeat=n)]
    return out


def free_string(T):
    return T is not None and T['kind'] == 'string' and not T.get('enums') and not T.get('patterns') and not T.get('bounds')


def units(tier):
    return ['S:' + n for n in sorted(lib.MODEL['elements'])] + ['H:' + n for n in f1.all_units()]


# ------------------------------------------------------------------ (i) + (iii)
def judge_text(name, s):
    cls = lib.cls_of(name)
    kw = {docs.py_attr(k): v for k, v in lib.required_attrs(name).items() if ':' not in k}
    try:
        with lib.Capture():
            e = cls(s, **kw)
    except Exception:
        return 'rejected', []
    return _roundtrip(e, name, text=s)


def judge_attr(name, attr, s):
    cls = lib.cls_of(name)
    kw = {docs.py_attr(k): v for k, v in lib.required_attrs(name).items() if ':' not in k}
    kw[docs.py_attr(attr)] = s
    v = lib.valid_value(name)
    try:
        with lib.Capture():
            e = cls(v, **kw) if v is not None else cls(**kw)
    except Exception:
        return 'rejected', []
    return _roundtrip(e, name, attr=(attr, s))


def _roundtrip(e, name, text=None, attr=None):
    saved = e.xsd_check
    e.xsd_check = False
    try:
        with lib.Capture():
            try:
                t1 = e.to_string()
                t2 = e.to_string()
            except Exception as ex:
                return 'ok', [('to_string-raises:%s' % type(ex).__name__, str(ex)[:80])]
    finally:
        e.xsd_check = saved
    if t1 != t2:
        return 'ok', [('repeated-to_string-differs', '%r vs %r' % (t1[:60], t2[:60]))]
    try:
        root = ET.fromstring(t1)
    except ET.ParseError as ex:
        return 'ok', [('output-not-well-formed', '%s: %r' % (ex, t1[:80]))]
    if root.tag != name:
        return 'ok', [('wrong-root-tag', root.tag)]
    if text is not None:
        got = root.text or ''
        if got != text.replace('\r\n', '\n').replace('\r', '\n'):
            return 'ok', [('text-not-recovered', 'stored %r recovered %r' % (text, got))]
    if attr is not None:
        k, s = attr
        if k not in root.attrib:
            return 'ok', [('attribute-not-recovered', '%s=%r missing in %r' % (k, s, t1[:80]))]
        if root.attrib[k] != s.replace('\r\n', '\n').replace('\r', '\n'):
            return 'ok', [('attribute-value-not-recovered', '%s: stored %r recovered %r' % (k, s, root.attrib[k]))]
    return 'ok', []


def judge_subtree(spec):
    """a child's own serialisation equals its part of the parent's, indentation aside"""
    try:
        with lib.Capture():
            e = docs.build_api(spec)
            whole = e.to_string()
    except Exception:
        return 'not-built', []
    root = ET.fromstring(whole)
    kids = e.get_children()
    if len(kids) != len(list(root)):
        return 'ok', [('subtree-count-differs', '%d children, %d in output' % (len(kids), len(list(root))))]
    for ch, node in zip(kids, list(root)):
        try:
            with lib.Capture():
                own = ch.to_string()
        except Exception as ex:
            return 'ok', [('subtree-to_string-raises:%s' % type(ex).__name__, ch.name)]
        d = docs.diff_infoset(ET.fromstring(own), node)
        if d:
            return 'ok', [('subtree-differs-from-slice-of-parent', d)]
        inner = ET.tostring(node, encoding='unicode')
        if textwrap.dedent(own).strip().split() != inner.strip().split():
            return 'ok', [('subtree-text-differs-from-slice-of-parent', '%r vs %r' % (own[:60], inner[:60]))]
        with lib.Capture():
            again = e.to_string()
        if again != whole:
            return 'ok', [('parent-output-changes-after-serialising-a-subtree', ch.name)]
    return 'ok', []


def _edit_for(cs):
    """an edit of a child described by spec cs: (label, apply(child element), edited spec) or None"""
    import copy
    tn, c, st = lib.type_of(cs['name'])
    if cs.get('value') is not None and st is not None:
        for v in docs.representatives(st, 4):
            if v != cs['value'] and type(v) is type(cs['value']):
                s2 = copy.deepcopy(cs)
                s2['value'] = v

                def f(ch, v=v):
                    ch.value_ = v
                return 'value:=%r' % (v,), f, s2
    for a in (c['attrs'] if c else []):
        if ':' in a['name'] or a['name'] == 'name' or a.get('fixed'):
            continue
        T = refmodel.attr_type(lib.MODEL, a)
        if a['name'] in cs['attrs']:
            if a.get('required'):
                continue
            s2 = copy.deepcopy(cs)
            del s2['attrs'][a['name']]

            def f(ch, k=docs.py_attr(a['name'])):
                setattr(ch, k, None)
            return 'delete @%s' % a['name'], f, s2
        vals = docs.representatives(T, 2)
        if vals:
            s2 = copy.deepcopy(cs)
            s2['attrs'][a['name']] = vals[0]

            def f(ch, k=docs.py_attr(a['name']), v=vals[0]):
                setattr(ch, k, v)
            return '@%s:=%r' % (a['name'], vals[0]), f, s2
    return None


def _at(spec, path):
    for i in path:
        spec = spec['children'][i]
    return spec


def _elem_at(e, path, spec):
    for i in path:
        kids = e.get_children()
        if len(kids) != len(spec['children']) or kids[i].name != spec['children'][i]['name']:
            return None
        e, spec = kids[i], spec['children'][i]
    return e


def judge_edit(spec):
    """whole tree serialised, a descendant (depth 2 first, then depth 1) serialised alone and then edited through the API: the next
    output of the whole tree must be the output of a freshly built tree with the edit"""
    import copy
    found = []
    paths = [(i, j) for i, c in enumerate(spec['children'][:3]) for j, _ in enumerate(c['children'][:2])] + [(i,) for i, _ in enumerate(spec['children'][:3])]
    done = 0
    for path in paths:
        if done >= 3:
            break
        cs = _at(spec, path)
        ed = _edit_for(cs)
        if ed is None:
            continue
        label, f, cs2 = ed
        spec2 = copy.deepcopy(spec)
        _at(spec2, path[:-1])['children'][path[-1]] = cs2
        where = '%s of <%s> at %s' % (label, cs['name'], '/'.join(map(str, path)))
        try:
            with lib.Capture():
                fresh = docs.build_api(spec2).to_string()
                plain = docs.build_api(spec)
                t = _elem_at(plain, path, spec)
                if t is None:
                    continue
                f(t)
                if plain.to_string() != fresh:
                    continue            # the edit itself behaves differently from construction: not this check's matter
        except Exception:
            continue
        done += 1
        try:
            with lib.Capture():
                e = docs.build_api(spec)
                ch = _elem_at(e, path, spec)
                e.to_string()
                ch.to_string()
                f(ch)
                after = e.to_string()
                alone = ch.to_string()
        except Exception as ex:
            found.append(('edit-after-serialisation-raises:%s' % type(ex).__name__, where))
            continue
        if after != fresh:
            found.append(('output-stale-after-subtree-serialisation', '%s: whole tree gives %r, a fresh tree %r' % (
                where, _first_diff(after, fresh), _first_diff(fresh, after))))
            continue
        node = ET.fromstring(after)
        for i in path:
            node = node[i]
        if docs.diff_infoset(ET.fromstring(alone), node):
            found.append(('subtree-differs-from-slice-of-parent', 'after ' + where))
    return 'ok', found[:1]


def _first_diff(a, b):
    la, lb = a.splitlines(), b.splitlines()
    for x, y in zip(la, lb):
        if x != y:
            return x.strip()[:70]
    return (la[len(lb):] or [''])[0].strip()[:70]


def run_strings(name, tier):
    stats = collections.Counter()
    cands, samples = [], []
    tn, c, st = lib.type_of(name)
    ss = strings(tier)
    if free_string(st):
        for s in ss:
            status, found = judge_text(name, s)
            stats['paths'] += 1
            if status == 'ok':
                stats['accepted_strings'] += 1
            for kind, detail in found:
                cands.append(dict(cls=name, kind=kind, witness=dict(position='text', string=s), detail=detail))
    n = 0
    for a in (c['attrs'] if c else []):
        if ':' in a['name'] or a['name'] == 'name' or a.get('fixed'):
            continue
        T = refmodel.attr_type(lib.MODEL, a)
        if not free_string(T):
            continue
        for s in ss:
            status, found = judge_attr(name, a['name'], s)
            stats['paths'] += 1
            if status == 'ok':
                stats['accepted_strings'] += 1
            for kind, detail in found:
                cands.append(dict(cls=name, kind=kind, witness=dict(position='@' + a['name'], string=s), detail=detail))
        n += 1
        if n >= (2 if tier == 'quick' else 6):
            break
    if lib.content_model(name) is not None:
        for label, spec in c08.variants(name, tier)[:4 if tier == 'quick' else 30]:
            if not spec['children']:
                continue
            status, found = judge_subtree(spec)
            stats['paths'] += 1
            for kind, detail in found:
                cands.append(dict(cls=name, kind=kind, witness=dict(position='subtree', variant=label, spec=spec), detail=detail))
            status, found = judge_edit(spec)
            stats['paths'] += 1
            for kind, detail in found:
                cands.append(dict(cls=name, kind=kind, witness=dict(position='edit', variant=label, spec=spec), detail=detail))
    # one witness per (kind, position) and class
    seen = {}
    for cnd in cands:
        seen.setdefault((cnd['kind'], cnd['witness']['position']), cnd)
    if stats['paths'] and len(samples) < 1:
        samples.append(dict(element=name, strings=len(ss), positions=n + (1 if free_string(st) else 0)))
    stats['cands_raw'] = len(cands)
    stats['decisions'] = stats['paths']
    return dict(stats=stats, cands=list(seen.values()), samples=samples, nontrivial=int(stats['accepted_strings'] + 0), evaluations=int(stats['paths']),
                funcs=['xmlelement/xmlelement.py:XMLElement.to_string', 'XMLElement._create_et_xml_element', 'XMLElement.et_xml_element'],
                bounds=dict(strings=len(ss)))


# ------------------------------------------------------------------ (ii)
def per_step(w, st):
    if st.op[0] == 'TOSTRING' and st.ok:
        again = w.apply(['TOSTRING', st.op[1]])
        w.steps.pop()
        if not again.ok or again.text != st.text:
            return [('repeated-to_string-differs', 'second call %s' % ('raised ' + str(again.exc) if not again.ok else 'returned other text'))]
    return []


def judge(w):
    calls = [i for i, s in enumerate(w.steps) if s.op[0] == 'TOSTRING']
    if not calls:
        w.nontrivial = False
        return []
    ops = [s.op for s in w.steps]
    without = [s.op for s in w.steps if s.op[0] != 'TOSTRING']
    A = w.alphabet if len(w.alphabet) <= 8 else hist.reduced_alphabet(w.name)[:8]
    mine = (c10.full(w, A), hist.acceptance(w.name, ops, A))
    twin = c10.twin_view(w.name, without, A)
    if mine[0] != twin[0]:
        diff = [k for k in mine[0] if mine[0][k] != twin[0][k]]
        return [('to_string-call-changes-later-state', 'differs in %s: %s vs without the calls %s' % (diff, {k: mine[0][k] for k in diff}, {k: twin[0][k] for k in diff}))]
    if mine[1] != twin[1]:
        diff = {k: (mine[1][k], twin[1][k]) for k in mine[1] if mine[1][k] != twin[1][k]}
        return [('to_string-call-changes-next-child-acceptance', str(diff)[:250])]
    return []


def judge_concrete(name, ops, extra):
    found = []
    w = hist.World(name)
    for op in ops:
        st = w.apply(list(op))
        found.extend(per_step(w, st))
    found.extend(judge(w))
    return found


def run_unit(unit, tier, seed):
    kind, name = unit.split(':', 1)
    lang.STATS.clear()
    if kind == 'S':
        r = run_strings(name, tier)
        f1.oracle_stats(r['stats'])
        return r
    c10._TWIN.clear()
    red = hist.reduced_alphabet(name)
    full = lib.content_model(name).names
    passes = [dict(kinds_by_depth=lambda d: ['ADD', 'REMOVE', 'DOTSET', 'DOTNONE', 'TOSTRING'], D=6,
                   budget=1200 if tier == 'quick' else 15000, alphabet=red if tier == 'quick' else full)]
    return f1.multi(name, passes, judge, judge_concrete, per_step=per_step)


def replay(c):
    w = c['witness']
    name = c['cls']
    if 'position' in w:
        if w['position'] == 'text':
            _, found = judge_text(name, w['string'])
        elif w['position'] == 'subtree':
            _, found = judge_subtree(w['spec'])
        elif w['position'] == 'edit':
            _, found = judge_edit(w['spec'])
        else:
            _, found = judge_attr(name, w['position'][1:], w['string'])
        for k, d in found:
            if k == c['kind']:
                return True, d
        return False, 'strings recovered'
    if c['kind'] == 'hang':
        return (True, 'exceeded 30 s again') if hist.hangs(name, w['ops']) else (False, 'finished within the limit')
    for k, d in judge_concrete(name, w['ops'], w):
        if k == c['kind']:
            return True, d
    return False, 'to_string is deterministic and side-effect free here'


def describe():
    return dict(
        rule='(i) every free-text element and up to 2 (6) free-string attributes per class x all strings of length <= 2 (3) over 13 character classes plus '
             'fixed strings; (ii) breadth-first exploration with to_string interleaved, compared with the twin history without the calls; (iii) subtree '
             'vs slice of the parent on C08 variants, then whole tree, subtree, edit of the subtree (value / attribute set / attribute deleted), whole tree '
             'again compared with a freshly built tree; non-trivial = accepted strings + histories containing a to_string call',
        functions=['xmlelement/xmlelement.py:XMLElement.to_string', 'XMLElement._create_et_xml_element', 'XMLElement.et_xml_element', 'XMLElement._final_checks',
                   'xmlelement/xmlchildcontainer.py:XMLChildContainer.check_required_elements', 'XMLChildContainer.get_required_element_names'],
        bounds=dict(string_length='<= 2 quick / 3 thorough', history='depth <= 6, budget 1200 / 15000 per class', outside='longer strings; carriage returns'),
        assumptions=['escaping is xml.etree code (environment): the strings are concrete representatives of character classes, not solver variables; this part '
                     'checks that the library hands values to the serialiser unmodified and is the weakest use of the technique',
                     'part (ii) relies on the symbolic exploration and twin comparison of the F1 harness'],
        exhaustive_within_bounds=True)
