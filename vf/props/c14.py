"""C14 — deep copies are faithful and independent.  Element trees from the C08 generator (shapes and
values from the reference model via z3), each followed by one post-construction edit, are deep-copied;
the copy must serialise identically, leave the original unchanged, keep xsd_check, and be independent
under a further edit of either tree."""
import collections
import copy
import xml.etree.ElementTree as ET

from .. import lib, docs, lang, refmodel, hist
from . import c08

LEVEL = 'model_checking'


def units(tier):
    return sorted(lib.MODEL['elements'])


def ser(e):
    with lib.Capture():
        try:
            return ('ok', e.to_string())
        except Exception as ex:
            return ('raises', type(ex).__name__)


def state(e):
    return (ser(e), dict(e.attributes), repr(e.value_), e.xsd_check, [c.name for c in e.get_children(ordered=False)])


def edits(name, tier):
    """post-construction edits of the root: list of (label, function(e))"""
    out = [('none', lambda e: None)]
    tn, c, st = lib.type_of(name)
    lim = 3 if tier == 'quick' else 8
    if c:
        n = 0
        for a in c['attrs']:
            if ':' in a['name']:
                continue
            T = refmodel.attr_type(lib.MODEL, a)
            vals = [a['fixed']] if a.get('fixed') else docs.representatives(T, 2)
            if not vals:
                continue
            py = docs.py_attr(a['name'])
            out.append(('set-later:%s=%r' % (a['name'], vals[0]), lambda e, py=py, v=vals[0]: setattr(e, py, v)))
            if len(vals) > 1:
                out.append(('set-then-overwrite:%s' % a['name'], lambda e, py=py, v=vals: (setattr(e, py, v[0]), setattr(e, py, v[1]))))
            out.append(('set-then-remove:%s' % a['name'], lambda e, py=py, v=vals[0]: (setattr(e, py, v), setattr(e, py, None))))
            if a['required']:
                out.append(('remove-constructor-attribute:%s' % a['name'], lambda e, py=py: setattr(e, py, None)))
            n += 1
            if n >= lim:
                break
    if st is not None:
        vals = docs.representatives(st, 3)
        for v in vals[1:3]:
            def ch(e, v=v):
                e.value_ = v
            out.append(('value-changed:%r' % (v,), ch))
    out.append(('xsd_check-off', lambda e: setattr(e, 'xsd_check', False)))
    m = lib.content_model(name)
    if m is not None:
        for a in m.names[:2 if tier == 'quick' else 6]:
            out.append(('child-added:' + a, lambda e, a=a: e.add_child(docs.build_api(docs.minimal(a)))))
        out.append(('first-child-removed', lambda e: e.remove(e.get_children(ordered=False)[0]) if e.get_children(ordered=False) else None))
        # a child replaced by a child of another element type: insertion order and document order may then disagree
        for a in m.names[:3 if tier == 'quick' else 8]:
            def rep(e, a=a):
                ch = e.get_children(ordered=False)
                if ch and ch[0].name != a:
                    e.replace_child(ch[0], docs.build_api(docs.minimal(a)))
            out.append(('first-child-replaced-by:' + a, rep))
    return out


def second_edits(name):
    out = [('remove-an-attribute', _remove_attr)]
    tn, c, st = lib.type_of(name)
    if c:
        for a in c['attrs']:
            if ':' in a['name'] or a.get('fixed'):
                continue
            vals = docs.representatives(refmodel.attr_type(lib.MODEL, a), 2)
            if vals:
                out.append(('attr:%s' % a['name'], lambda e, py=docs.py_attr(a['name']), v=vals[-1]: setattr(e, py, v)))
                break
    if st is not None:
        vals = docs.representatives(st, 3)
        if vals:
            def ch(e, v=vals[-1]):
                e.value_ = v
            out.append(('value', ch))
    m = lib.content_model(name)
    if m is not None:
        out.append(('add-child:' + m.names[0], lambda e, a=m.names[0]: e.add_child(docs.build_api(docs.minimal(a)))))
        out.append(('remove-first-child', lambda e: e.remove(e.get_children(ordered=False)[0]) if e.get_children(ordered=False) else None))
        out.append(('grandchild-attr', _grandchild_edit))
    return out


def _remove_attr(e):
    for k in list(e.attributes):
        if ':' not in k and k != 'name':
            setattr(e, k.replace('-', '_'), None)
            return
    return None


def _grandchild_edit(e):
    for ch in e.get_children(ordered=False):
        tn, c, st = lib.type_of(ch.name)
        if c:
            for a in c['attrs']:
                if ':' in a['name'] or a.get('fixed'):
                    continue
                vals = docs.representatives(refmodel.attr_type(lib.MODEL, a), 2)
                if vals:
                    setattr(ch, docs.py_attr(a['name']), vals[-1])
                    return
    return None


def judge(name, spec, edit_label, tier):
    """-> (status, findings)"""
    ed = dict(edits(name, tier)).get(edit_label)
    try:
        with lib.Capture():
            e = docs.build_api(spec)
            ed(e)
    except Exception as ex:
        return 'not-built:' + type(ex).__name__, []
    before = state(e)
    try:
        with lib.Capture():
            c = copy.deepcopy(e)
    except Exception as ex:
        return 'ok', [('deepcopy-raises:%s' % type(ex).__name__, str(ex)[:120])]
    after = state(e)
    found = []
    if before != after:
        what = [n for n, a, b in zip(('serialisation', 'attributes', 'value', 'xsd_check', 'children'), before, after) if a != b]
        found.append(('original-changed-by-deepcopy', 'changed: %s' % what))
    sc, se = ser(c), before[0]
    if sc != se:
        if sc[0] == 'ok' and se[0] == 'ok':
            d = docs.diff_infoset(ET.fromstring(se[1]), ET.fromstring(sc[1])) or 'text differs'
        else:
            d = 'original %s, copy %s' % (se[:1] + (se[1][:60],), sc[:1] + (sc[1][:60],))
        found.append(('copy-serialises-differently', d))
    if c.xsd_check != e.xsd_check:
        found.append(('copy-loses-xsd_check', 'original %s copy %s' % (e.xsd_check, c.xsd_check)))
    if found:
        return 'ok', found[:2]
    # independence: edit one tree, the other must not move
    for label, f in second_edits(name):
        for who in ('copy', 'original'):
            try:
                with lib.Capture():
                    e2 = docs.build_api(spec)
                    ed(e2)
                    c2 = copy.deepcopy(e2)
                    target, other = (c2, e2) if who == 'copy' else (e2, c2)
                    s0 = state(other)
                    f(target)
                    s1 = state(other)
            except Exception:
                continue
            if s0 != s1:
                return 'ok', [('edit-of-%s-changes-the-other' % who, '%s: %s' % (label, [n for n, a, b in zip(('serialisation', 'attributes', 'value', 'xsd_check', 'children'), s0, s1) if a != b]))]
    return 'ok', []


def run_unit(name, tier, seed):
    lang.STATS.clear()
    stats = collections.Counter()
    cands, samples = [], []
    allv = c08.variants(name, tier)
    if tier == 'quick':
        pick = lambda pre, n: [v for v in allv if v[0].startswith(pre)][:n]
        vs = pick('minimal', 1) + pick('word:', 2) + pick('attr:', 2) + pick('value:', 1)
    else:
        vs = allv[:40]
    funcs = set()
    first = True
    for vlabel, spec in vs:
        for elabel, _ in edits(name, tier):
            if first:
                first = False
                with hist.symx.FuncTrace() as ft:
                    status, found = judge(name, spec, elabel, tier)
                funcs |= ft.funcs
            else:
                status, found = judge(name, spec, elabel, tier)
            stats['paths'] += 1
            if status != 'ok':
                stats['not_built'] += 1
                continue
            stats['trees_copied'] += 1
            for kind, detail in found:
                cands.append(dict(cls=name, kind=kind, witness=dict(variant=vlabel, edit=elabel, spec=spec), detail=detail))
            if len(samples) < 2 and elabel != 'none':
                samples.append(dict(root=name, variant=vlabel, edit=elabel, verdict='faithful and independent' if not found else found[0][0]))
    # keep one witness per (kind, edit label) per class: the variants only vary the tree under the same defect
    seen = {}
    for c in cands:
        seen.setdefault((c['kind'], c['witness']['edit'].split('=')[0].split(':')[0]), c)
    stats['cands_raw'] = len(cands)
    from .. import f1
    f1.oracle_stats(stats)
    stats['decisions'] = stats['paths']
    return dict(stats=stats, cands=list(seen.values()), samples=samples, funcs=sorted(funcs), nontrivial=int(stats['trees_copied']),
                evaluations=int(stats['paths']), bounds=dict(variants=len(vs)))


def replay(c):
    status, found = judge(c['cls'], c['witness']['spec'], c['witness']['edit'], 'thorough')
    if status != 'ok':
        status, found = judge(c['cls'], c['witness']['spec'], c['witness']['edit'], 'quick')
    for k, d in found:
        if k == c['kind']:
            return True, d
    return False, status


def describe():
    return dict(
        rule='per element class: the C08 document variants x one post-construction edit (attribute set later / overwritten / removed, constructor '
             'attribute removed, value changed, xsd_check switched off, child added, child removed) -> deepcopy -> serialisation, original state, '
             'xsd_check, then one further edit of copy or original; non-trivial = trees that could be built and edited',
        functions=['xmlelement/xmlelement.py:XMLElement.__deepcopy__', 'XMLElement.__init__', 'XMLElement._set_attributes', 'XMLElement.add_child', 'XMLElement.to_string'],
        bounds=dict(variants_per_class='6 quick / 40 thorough', edits='one before the copy, one after', outside='sequences of edits, parser-built trees'),
        assumptions=['finite enumeration of edits; the solver contributes the document shapes and values (C08 generator)'],
        exhaustive_within_bounds=True)
