"""C19 — misuse is reported with the documented exception types, silently.  Monitor over F1
histories with the widest operand ranges (and over F2 value offers, see c05 for the value paths)."""
from .. import lib, hist, f1

LEVEL = f1.LEVEL


def units(tier):
    """H:<class> = operation histories; V:<element> = values of every python kind offered to the element constructor
    (the symbolic value paths of the C05 harness, watched for undocumented exceptions)"""
    from . import c05
    c05.precompute()
    return ['H:' + n for n in f1.all_units()] + ['V:' + n for n in sorted(lib.MODEL['elements'])]


def per_step(w, st):
    found = []
    if st.bad:
        found.append((st.bad, '%s -> %s' % (st.op, st.msg)))
    if st.out:
        found.append(('writes-to-stdout-or-stderr', '%s printed %r' % (st.op, st.out[:80])))
    return found


def judge(w):
    out = []
    for ic in (0, 1):
        st = w.apply(['TOSTRING', ic])
        out.extend(per_step(w, st))
    return out


def judge_concrete(name, ops, extra):
    found = []
    w = hist.run_ops(name, ops, after=lambda w, st: found.extend(per_step(w, st)))
    found.extend(judge(w))
    return found


def passes(name, tier):
    ps = f1.std_passes(name, tier)
    ps[0]['fwd'] = (-2, 4) if tier == 'quick' else (-4, 8)
    return ps


def run_values(name, tier):
    """value offers (int / Float64 / str symbolic, bool concrete) to the element constructor: any exception other than
    TypeError / ValueError / the documented families is an internal error"""
    from . import c05
    stats, cands, samples, sig = c05.analyse('E:' + name, tier, 'cold')
    out = []
    for c in cands:
        if c.get('prop') == 'C19':
            out.append(dict(cls=name, kind=c['kind'], witness=dict(value=c['witness']['value']), detail=c['detail']))
    return dict(stats=stats, cands=out, samples=samples[:1], nontrivial=int(stats['paths']), evaluations=int(stats['paths']),
                funcs=['xmlelement/xmlelement.py:XMLElement.__init__', 'XMLElement.value_', 'xsd/xsdsimpletype.py:XSDSimpleType._check_value'],
                bounds=dict(values='all ints, all Float64, strings over SIGMA up to the C05 length bound'))


def run_unit(unit, tier, seed):
    kind, name = unit.split(':', 1)
    if kind == 'V':
        return run_values(name, tier)
    r = f1.multi(name, passes(name, tier), judge, judge_concrete, per_step=per_step)
    return r


def replay(c):
    if 'value' in c['witness']:
        from . import c05
        ctor, L, _ = c05.target('E:' + c['cls'])
        ok, text = c05.concrete(ctor, c05.decode(c['witness']['value']))
        return ok is None, str(text)
    if c['kind'] == 'hang':
        return (True, 'exceeded 30 s again') if hist.hangs(c['cls'], c['witness']['ops']) else (False, 'finished within the limit')
    for k, d in judge_concrete(c['cls'], c['witness']['ops'], c['witness']):
        if k == c['kind']:
            return True, d
    return False, 'no undocumented exception / output'


def describe():
    return dict(
        rule='every operation from every reachable state per element class with the widest operand ranges, followed by to_string with '
             'intelligent_choice off and on; every exception escaping a public call is classified (documented family or not), '
             'stdout/stderr captured per call, per-path timer; non-trivial = every history',
        functions=['xmlelement/xmlelement.py:XMLElement.*', 'xmlelement/xmlchildcontainer.py:*'],
        bounds=dict(exploration='breadth-first over reachable states (structural fingerprints merge equal states), depth <= 8 quick / 10 thorough; every state expanded by all 10 operation kinds at depth <= 2 (3), by ADD REMOVE REPLACE DOTSET DOTNONE SELF deeper; path budget 3500 quick / 45000 thorough per class (breadth-first order: the cut removes the deepest states)', forward='[-2,4] quick / [-4,8] thorough', path_timeout_s=10),
        assumptions=['TypeError/ValueError are treated as documented everywhere (the statement allows them for values; the harness does not try to tell a value error from a structural one)',
                     'AttributeError is documented only for an unknown dot name'],
        exhaustive_within_bounds=True)
