"""C19 — misuse is reported with the documented exception types, silently.  Monitor over F1
histories with the widest operand ranges (and over F2 value offers, see c05 for the value paths)."""
from .. import lib, hist, f1

LEVEL = f1.LEVEL


def units(tier):
    return f1.all_units()


def per_step(w, st):
    found = []
    if st.bad:
        found.append((st.bad, '%s -> %s' % (st.op, st.msg)))
    if st.out:
        found.append(('writes-to-stdout-or-stderr', '%s printed %r' % (st.op, st.out[:80])))
    return found


def judge(w):
    out = []
    for ic in (0, 1):
        st = w.apply(['TOSTRING', ic])
        out.extend(per_step(w, st))
    return out


def judge_concrete(name, ops, extra):
    found = []
    w = hist.run_ops(name, ops, after=lambda w, st: found.extend(per_step(w, st)))
    found.extend(judge(w))
    return found


def passes(name, tier):
    ps = f1.std_passes(name, tier)
    ps[0]['fwd'] = (-2, 4) if tier == 'quick' else (-4, 8)
    return ps


def run_unit(name, tier, seed):
    return f1.multi(name, passes(name, tier), judge, judge_concrete, per_step=per_step)


def replay(c):
    if c['kind'] == 'hang':
        return (True, 'exceeded 5 s again') if hist.hangs(c['cls'], c['witness']['ops']) else (False, 'finished within the limit')
    for k, d in judge_concrete(c['cls'], c['witness']['ops'], c['witness']):
        if k == c['kind']:
            return True, d
    return False, 'no undocumented exception / output'


def describe():
    return dict(
        rule='every history of <= K operations per element class with the widest operand ranges, followed by to_string with '
             'intelligent_choice off and on; every exception escaping a public call is classified (documented family or not), '
             'stdout/stderr captured per call, per-path timer; non-trivial = every history',
        functions=['xmlelement/xmlelement.py:XMLElement.*', 'xmlelement/xmlchildcontainer.py:*'],
        bounds=dict(history_length='wide pass K=2, forward in [-2,4] quick / [-4,8] thorough; deep pass K=3 (4 thorough)', path_timeout_s=5),
        assumptions=['TypeError/ValueError are treated as documented everywhere (the statement allows them for values; the harness does not try to tell a value error from a structural one)',
                     'AttributeError is documented only for an unknown dot name'],
        exhaustive_within_bounds=True)
