"""C17 — write() is all-or-nothing; file I/O does not depend on the process locale.
Environment harness: `open` as seen from the library's modules is replaced by an in-memory file
system whose default text encoding (the locale's) is a solver variable; the fault position (which
node of the tree is made invalid), the prior file content and the code point placed in a text value
are solver variables too.  The codecs themselves are executed, not modelled.  Counterexamples are
replayed with a real temporary file and, where the encoding matters, in a real subprocess under
LC_ALL=C PYTHONCOERCECLOCALE=0 -X utf8=0."""
import collections
import io
import json
import os
import subprocess
import sys
import tempfile
import z3

from .. import lib, docs, symx, lang, hist

LEVEL = 'model_checking'
ENCODINGS = ['utf-8', 'ascii', 'latin-1', 'cp1252']
CODEPOINTS = ['A', 'é', '€', '中', '\U0001F3B5']      # < 0x80, < 0x100, cp1252-only BMP, BMP, non-BMP
DECL = '<?xml version="1.0" encoding="UTF-8" standalone="no"?>\n'


class MemFS:
    """open() honouring the documented contract: mode 'w' truncates at open; text mode without encoding= uses the
    locale's preferred encoding (self.default)"""

    def __init__(self, default):
        self.default = default
        self.files = {}
        self.log = []

    def open(self, path, mode='r', buffering=-1, encoding=None, errors=None, newline=None, **kw):
        path = str(path)
        fs = self
        binary = 'b' in mode
        enc = None if binary else (encoding or self.default)
        self.log.append((path, mode, encoding))
        writing = any(m in mode for m in 'wax+')
        if 'x' in mode and path in self.files:
            raise FileExistsError(path)
        if 'w' in mode:
            self.files[path] = b''                      # truncation happens at open
        elif ('a' in mode or 'x' in mode) and path not in self.files:
            self.files[path] = b''                      # append / exclusive creation create the file
        if writing:
            start = self.files.get(path)
            if start is None:
                raise FileNotFoundError(path)

            class W:
                def __init__(s):
                    s.pos = len(start) if 'a' in mode else 0

                def write(s, data):
                    bts = data if binary else data.encode(enc)
                    cur = fs.files[path]
                    if 'a' in mode:
                        fs.files[path] = cur + bts
                    else:
                        fs.files[path] = cur[:s.pos] + bts + cur[s.pos + len(bts):]
                        s.pos += len(bts)
                    return len(data)

                def read(s, n=-1):
                    data = fs.files[path][s.pos:]
                    s.pos = len(fs.files[path])
                    return data if binary else data.decode(enc)

                def seek(s, pos, whence=0):
                    s.pos = pos if whence == 0 else len(fs.files[path])
                    return s.pos

                def truncate(s, size=None):
                    fs.files[path] = fs.files[path][:s.pos if size is None else size]

                def flush(s):
                    pass

                def close(s):
                    pass

                def __enter__(s):
                    return s

                def __exit__(s, *a):
                    return False
            return W()
        if path in self.files:
            data = self.files[path]
        elif path.startswith('/virtual/'):
            raise FileNotFoundError(path)
        else:
            with io.open(path, 'rb') as f:
                data = f.read()
        if binary:
            return io.BytesIO(data)
        return io.TextIOWrapper(io.BytesIO(data), encoding=enc, errors=errors, newline=newline)      # real decoding and newline translation


def tree():
    """a small valid score with a text position for the code point"""
    spec = docs.minimal('score-partwise')
    part = [c for c in spec['children'] if c['name'] == 'part'][0]
    measure = part['children'][0]
    measure['children'].append(docs.minimal('note'))
    spec['children'].insert(0, dict(name='movement-title', attrs={}, value='T', children=[]))
    return spec


def nodes(e):
    out = [e]
    for c in e.get_children(ordered=False):
        out.extend(nodes(c))
    return out


def invalidate(node):
    """make one node fail its final check; returns a label or None if not applicable"""
    tn, c, st = lib.type_of(node.name)
    if c:
        for a in c['attrs']:
            if a['required'] and ':' not in a['name'] and a['name'] in node.attributes:
                setattr(node, docs.py_attr(a['name']), None)
                return 'required attribute %s removed' % a['name']
    m = lib.content_model(node.name)
    if m is not None and not m.member(()):
        ch = node.get_children(ordered=False)
        if ch:
            first = ch[0]
            node.remove(first)
            return 'required child %s removed' % first.name
    return None


def scenario(f, enc, cp, ic, fs_open=None):
    """build the tree, break node f (f == -1: none), call write(); returns dict(raised, content, expected, label)"""
    X = lib.X()
    spec = tree()
    spec['children'][0]['value'] = 'T' + cp
    e = docs.build_api(spec)
    ns = nodes(e)
    label = 'valid tree'
    if f >= 0:
        if f >= len(ns):
            return None
        label = invalidate(ns[f])
        if label is None:
            return None
        label = '%s: %s' % (ns[f].name, label)
    return e, label


PRIOR = 'PRIOR-CONTENT'
PRIORS = ['unrelated', 'absent', 'empty', 'same-document', 'same-document-crlf', 'same-document-cr', 'same-document-latin1-bytes']


def prior_bytes(kind, e, ic):
    """candidate prior states of the destination, several of them derived from the document about to be written"""
    if kind == 'unrelated':
        return PRIOR.encode('utf-8')
    if kind == 'absent':
        return None
    if kind == 'empty':
        return b''
    import copy
    with lib.Capture():
        try:
            text = DECL + copy.deepcopy(e).to_string(intelligent_choice=bool(ic))
        except Exception:
            return PRIOR.encode('utf-8')
    if kind == 'same-document':
        return text.encode('utf-8')
    if kind == 'same-document-crlf':
        return text.replace('\n', '\r\n').encode('utf-8')
    if kind == 'same-document-cr':
        return text.replace('\n', '\r').encode('utf-8')
    return text.encode('latin-1', 'replace')


def run_stub(f, enc, cp, ic, prior='unrelated'):
    X = lib.X()
    import musicxml.xmlelement.xmlelement as XM
    r = scenario(f, enc, cp, ic)
    if r is None:
        return None
    e, label = r
    fs = MemFS(enc)
    path = '/virtual/out.musicxml'
    pb = prior_bytes(prior, e, ic)
    if pb is not None:
        fs.files[path] = pb
    saved = XM.__dict__.get('open')
    XM.open = fs.open
    raised = None
    try:
        with lib.Capture():
            try:
                e.write(path, intelligent_choice=bool(ic)) if ic else e.write(path)
            except Exception as ex:
                raised = type(ex).__name__
    finally:
        if saved is None:
            del XM.open
        else:
            XM.open = saved
    used = any(p == path for p, _, _ in fs.log)
    expected = None
    if raised is None:
        with lib.Capture():
            expected = (DECL + e.to_string(intelligent_choice=bool(ic))).encode('utf-8')
    return dict(label=label, raised=raised, content=fs.files.get(path), expected=expected, stub_used=used, prior=pb)


def judge(f, enc, cp, ic, prior='unrelated'):
    r = run_stub(f, enc, cp, ic, prior)
    if r is None:
        return None, []
    found = []
    if not r['stub_used'] and (r['raised'] is None or r['raised'] in ('FileNotFoundError', 'OSError', 'PermissionError', 'NotADirectoryError')):
        return r, [('HARNESS:stub-bypassed', 'write() did not go through the module-level open() (%s)' % r['raised'])]
    if r['raised'] is not None:
        # z3: is there a prior content P (|P| <= 8) that the file no longer holds?  The stub was run with one concrete P;
        # the final content is P itself iff untouched, else a value that does not depend on P.
        P = z3.String('P')
        final = P if r['content'] == r['prior'] else z3.StringVal(('<file now exists>' if r['content'] == b'' else (r['content'] or b'<absent>').decode('utf-8', 'replace')))
        s = z3.Solver()
        s.add(z3.Length(P) <= 8, z3.Length(P) >= 1, final != P)
        lang.STATS['atomic.calls'] += 1
        if str(s.check()) == 'sat':
            lang.STATS['atomic.sat'] += 1
            found.append(('failed-write-destroys-previous-content', '%s; write raised %s; file now holds %r' % (r['label'], r['raised'], r['content'][:60])))
        else:
            lang.STATS['atomic.unsat'] += 1
        if f < 0:
            found.append(('write-fails-under-locale', 'valid tree, default encoding %s, text with U+%04X: write raised %s' % (enc, ord(cp), r['raised'])))
    else:
        if r['content'] != r['expected']:
            found.append(('file-bytes-are-not-utf8-of-to_string', 'default encoding %s, U+%04X: file %r... expected %r...' % (
                enc, ord(cp), r['content'][:70], r['expected'][:70])))
    return r, found


def judge_import(enc):
    """re-execute the import-time block of generate_classes/utils.py under the stub"""
    import musicxml.generate_classes.utils as U
    src = open(U.__file__, encoding='utf-8').read()
    fs = MemFS(enc)
    ns = {'__file__': U.__file__, '__name__': 'utils_under_stub', 'open': fs.open}
    try:
        exec(compile(src, U.__file__, 'exec'), ns)
    except Exception as ex:
        return [('import-fails-under-locale', 'default encoding %s: %s: %s' % (enc, type(ex).__name__, str(ex)[:100]))]
    if not fs.log:
        return []
    return []


def judge_parse(enc, cp):
    import musicxml.parser.parser as PM
    spec = tree()
    spec['children'][0]['value'] = 'T' + cp
    text = docs.to_xml(spec)
    fs = MemFS(enc)
    path = '/virtual/in.musicxml'
    fs.files[path] = text.encode('utf-8')
    saved = PM.__dict__.get('open')
    PM.open = fs.open
    try:
        with lib.Capture():
            try:
                e = PM.parse_musicxml(path)
            except OSError as ex:
                return [('HARNESS:stub-bypassed', 'parse_musicxml did not use the module-level open(): %s' % ex)]
            except Exception as ex:
                return [('parse-fails-under-locale', 'default encoding %s, U+%04X: %s' % (enc, ord(cp), type(ex).__name__))]
    finally:
        if saved is None:
            del PM.open
        else:
            PM.open = saved
    got = [c for c in e.get_children(ordered=False) if c.name == 'movement-title'][0].value_
    if got != 'T' + cp:
        return [('parsed-text-depends-on-locale', 'default encoding %s: %r read as %r' % (enc, 'T' + cp, got))]
    return []


def units(tier):
    return ['write', 'import', 'parse']


def run_unit(unit, tier, seed):
    lang.STATS.clear()
    stats = collections.Counter()
    cands, samples = [], []
    eng = symx.Engine(path_timeout_s=30.0)
    symx.ENGINE = eng
    n_nodes = len(nodes(docs.build_api(tree())))

    def harness(eng):
        E = eng.choose('encoding', lambda: (z3.Int('enc'), [z3.Int('enc') >= 0, z3.Int('enc') < len(ENCODINGS)]))
        if unit == 'import':
            return ('import', ENCODINGS[E], None, None, None), judge_import(ENCODINGS[E])
        C = eng.choose('codepoint', lambda: (z3.Int('cp'), [z3.Int('cp') >= 0, z3.Int('cp') < len(CODEPOINTS)]))
        if unit == 'parse':
            return ('parse', ENCODINGS[E], CODEPOINTS[C], None, None), judge_parse(ENCODINGS[E], CODEPOINTS[C])
        F = eng.choose('fault', lambda: (z3.Int('f'), [z3.Int('f') >= -1, z3.Int('f') < n_nodes]))
        I = eng.choose('ic', lambda: (z3.Int('ic'), [z3.Int('ic') >= 0, z3.Int('ic') <= 1]))
        hi = len(PRIORS) - 1 if F < 0 else 3
        Pk = eng.choose('prior', lambda: (z3.Int('prior'), [z3.Int('prior') >= 0, z3.Int('prior') <= hi]))
        r, found = judge(F, ENCODINGS[E], CODEPOINTS[C], I, PRIORS[Pk])
        if r is None:
            raise symx.Abort()
        return ('write', ENCODINGS[E], CODEPOINTS[C], F, I, r['label'], r['raised'], PRIORS[Pk]), found
    for decisions, (what, found) in eng.explore(harness):
        for kind, detail in found:
            if kind.startswith('HARNESS:'):
                raise RuntimeError(detail)
            wit = dict(op=what[0], encoding=what[1])
            if what[0] != 'import':
                wit['codepoint'] = 'U+%04X' % ord(what[2])
            if what[0] == 'write':
                wit['fault'] = what[5]
                wit['fault_index'] = what[3]
                wit['ic'] = what[4]
                wit['prior'] = what[7]
            cands.append(dict(cls=unit, kind=kind, witness=wit, detail=detail))
        if len(samples) < 3:
            samples.append(dict(case=[str(x) for x in what], findings=[k for k, _ in found]))
    for k, v in eng.stats.items():
        stats[k] += v
    # canonical witnesses: one per (kind, fault label / encoding class) keeps the list short
    seen = {}
    for c in cands:
        w = c['witness']
        if c['kind'] == 'failed-write-destroys-previous-content':
            key = (c['kind'], w['fault'], w['ic'], w['prior'])
            c = dict(c, witness=dict(op='write', fault=w['fault'], fault_index=w['fault_index'], ic=w['ic'], prior=w['prior'], encoding='utf-8', codepoint='U+0041'))
        else:
            key = (c['kind'], json.dumps(w, sort_keys=True))
        seen.setdefault(key, c)
    from .. import f1
    f1.oracle_stats(stats)
    return dict(stats=stats, cands=list(seen.values()), samples=samples, nontrivial=int(stats['paths']), evaluations=int(stats['paths']),
                funcs=['xmlelement/xmlelement.py:XMLScorePartwise.write', 'xmlelement/xmlelement.py:XMLElement.to_string', 'XMLElement._final_checks',
                       'parser/parser.py:parse_musicxml', 'generate_classes/utils.py:<module>'],
                bounds=dict(encodings=ENCODINGS, codepoints=['U+%04X' % ord(c) for c in CODEPOINTS], fault_positions=n_nodes, prior_content='symbolic string (1 <= length <= 8) for the untouched/changed question; 7 concrete prior states derived from the document for behaviour that reads the destination'))


# ---------------------------------------------------------------------------------- replay on real files / real locale
REAL = r'''
import sys, json, os, tempfile, warnings
warnings.simplefilter('ignore')
sys.path.insert(0, %(root)r)
w = json.loads(%(wit)r)
out = dict()
try:
    from vf.props import c17
    from vf import lib, docs
except Exception as e:
    print('@@' + json.dumps(dict(import_error=type(e).__name__ + ': ' + str(e)[:200])))
    sys.exit(0)
cp = chr(int(w.get('codepoint', 'U+0041')[2:], 16))
if w['op'] == 'write':
    r = c17.scenario(w['fault_index'], None, cp, w['ic'])
    e, label = r
    fd, path = tempfile.mkstemp(suffix='.musicxml', dir='/var/tmp')
    pb = c17.prior_bytes(w.get('prior', 'unrelated'), e, w['ic'])
    if pb is None:
        os.close(fd); os.unlink(path)
    else:
        os.write(fd, pb); os.close(fd)
    raised = None
    try:
        e.write(path, intelligent_choice=bool(w['ic'])) if w['ic'] else e.write(path)
    except Exception as ex:
        raised = type(ex).__name__
    content = open(path, 'rb').read() if os.path.exists(path) else None
    if content is not None:
        os.unlink(path)
    exp = None
    if raised is None:
        exp = (c17.DECL + e.to_string(intelligent_choice=bool(w['ic']))).encode('utf-8')
    out = dict(raised=raised, untouched=(content == pb), equal=(content == exp), content=(content or b'<absent>')[:60].decode('latin-1'))
elif w['op'] == 'parse':
    from musicxml.parser.parser import parse_musicxml
    spec = c17.tree(); spec['children'][0]['value'] = 'T' + cp
    fd, path = tempfile.mkstemp(suffix='.musicxml', dir='/var/tmp')
    os.write(fd, docs.to_xml(spec).encode('utf-8')); os.close(fd)
    try:
        e = parse_musicxml(path)
        got = [c for c in e.get_children(ordered=False) if c.name == 'movement-title'][0].value_
        out = dict(raised=None, same=(got == 'T' + cp))
    except Exception as ex:
        out = dict(raised=type(ex).__name__)
    os.unlink(path)
print('@@' + json.dumps(out))
'''


def real_run(w, ascii_locale):
    env = dict(os.environ, PYTHONDONTWRITEBYTECODE='1')
    args = [sys.executable, '-W', 'ignore']
    if ascii_locale:
        env.update(LC_ALL='C', LANG='C', PYTHONCOERCECLOCALE='0', PYTHONUTF8='0')
        args += ['-X', 'utf8=0']
    code = REAL % dict(root=os.path.dirname(os.path.dirname(os.path.dirname(os.path.abspath(__file__)))), wit=json.dumps(w))
    p = subprocess.run(args + ['-c', code], capture_output=True, env=env, timeout=300)
    outs = [l for l in p.stdout.decode('utf-8', 'replace').splitlines() if l.startswith('@@')]
    if not outs:
        return dict(crash=p.stderr.decode('utf-8', 'replace')[-300:])
    return json.loads(outs[-1][2:])


def replay(c):
    w = c['witness']
    k = c['kind']
    if k == 'failed-write-destroys-previous-content':
        r = real_run(w, False)
        return (r.get('raised') is not None and not r.get('untouched')), json.dumps(r)
    if w['encoding'] in ('utf-8', 'ascii'):
        r = real_run(w, w['encoding'] == 'ascii') if w['op'] != 'import' else real_import(w['encoding'] == 'ascii')
        if k == 'write-fails-under-locale':
            return r.get('raised') is not None, json.dumps(r)
        if k == 'file-bytes-are-not-utf8-of-to_string':
            return (r.get('raised') is None and not r.get('equal')), json.dumps(r)
        if k == 'parse-fails-under-locale':
            return r.get('raised') is not None, json.dumps(r)
        if k == 'parsed-text-depends-on-locale':
            return (r.get('raised') is None and not r.get('same')), json.dumps(r)
        if k == 'import-fails-under-locale':
            return bool(r.get('import_error') or r.get('crash')), json.dumps(r)[:300]
    # latin-1 / cp1252 locales are not installed in the sandbox: the stub run is re-executed (codecs are real)
    if w['op'] == 'import':
        return bool(judge_import(w['encoding'])), 'stub re-run'
    cp = chr(int(w['codepoint'][2:], 16))
    if w['op'] == 'parse':
        return any(kk == k for kk, _ in judge_parse(w['encoding'], cp)), 'stub re-run (locale not installed)'
    r, found = judge(w['fault_index'], w['encoding'], cp, w['ic'])
    return any(kk == k for kk, _ in found), 'stub re-run (locale not installed)'


def real_import(ascii_locale):
    env = dict(os.environ, PYTHONDONTWRITEBYTECODE='1')
    args = [sys.executable, '-W', 'ignore']
    if ascii_locale:
        env.update(LC_ALL='C', LANG='C', PYTHONCOERCECLOCALE='0', PYTHONUTF8='0')
        args += ['-X', 'utf8=0']
    p = subprocess.run(args + ['-c', 'import musicxml.generate_classes.utils; print("@@ok")'], capture_output=True, env=env, timeout=300)
    if b'@@ok' in p.stdout:
        return dict(ok=True)
    return dict(import_error=p.stderr.decode('utf-8', 'replace')[-200:])


def describe():
    return dict(
        rule='solver decisions: default text encoding (4), code point class in a text value (5), fault position (every node of a small score made '
             'invalid in turn, or none), intelligent_choice; prior file content symbolic; every combination executed on the real write / parse / '
             'import block under the open() stub; non-trivial = every combination',
        functions=['xmlelement/xmlelement.py:XMLScorePartwise.write', 'XMLElement.to_string', 'XMLElement._final_checks', 'parser/parser.py:parse_musicxml',
                   'generate_classes/utils.py (import-time block)'],
        bounds=dict(encodings=ENCODINGS, tree='minimal score-partwise with a title and one note', prior_content='length <= 8',
                    outside='failures of the operating system during write (disk full), other entry points that open files'),
        assumptions=['open() stub honours the documented contract: mode w truncates at open, text mode without encoding= uses the locale encoding',
                     'codecs are executed, not modelled; latin-1 / cp1252 locales exist only in the stub (not installed in the sandbox), ASCII and UTF-8 are replayed in real subprocesses'],
        exhaustive_within_bounds=True)
