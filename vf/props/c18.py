"""C18 — xsd_check=False switches off structural checking and nothing else.  F1 exploration on an
element created with xsd_check=False whose alphabet is its own children plus foreign elements;
every structural operation must succeed, order is insertion order, valid words serialise byte-identically
to the checked twin; mixed trees: a checked node nested in an unchecked one still validates, an unchecked
node inside a checked tree is exempt."""
import collections
from .. import lib, hist, f1, docs, words

LEVEL = f1.LEVEL
KINDS = ['ADD', 'ADDF', 'REMOVE', 'REPLACE', 'DOTSET', 'DOTVAL', 'DOTNONE', 'TOSTRING', 'SELF', 'ADDSTALE']
FOREIGN_NAMES = ['pitch', 'voice', 'accent']


def units(tier):
    """element-content classes are explored; every other class (simple, simple-content, empty types) gets the fixed
    unchecked scenario of leaf_scenario(): xsd_check=False must switch off structural checking for them too"""
    content = set(lib.element_content_names())
    return f1.all_units() + ['L:' + n for n in sorted(lib.MODEL['elements']) if n not in content]


def leaf_scenario(name):
    found = []
    with lib.Capture():
        try:
            e = lib.make(name, xsd_check=False)
        except Exception:
            try:
                e = lib.make(name, xsd_check=False, with_required=False)
            except Exception:
                return found
        kids = []
        try:
            for f in FOREIGN_NAMES[:2]:
                c = lib.make(f, xsd_check=False)
                e.add_child(c)
                kids.append(c)
            if [id(x) for x in e.get_children()] != [id(x) for x in kids] or [id(x) for x in e.get_children(ordered=False)] != [id(x) for x in kids]:
                found.append(('unchecked-children-not-in-insertion-order', name))
            text = e.to_string()
            if hist.out_children(text) != FOREIGN_NAMES[:2]:
                found.append(('unchecked-output-not-in-insertion-order', text[:80]))
            n = lib.make(FOREIGN_NAMES[2], xsd_check=False)
            e.replace_child(kids[0], n)
            e.remove(kids[1])
            if [id(x) for x in e.get_children()] != [id(n)]:
                found.append(('unchecked-children-not-in-insertion-order', 'after replace and remove'))
            e.to_string()
        except Exception as ex:
            found.append(('unchecked-element-raises:%s' % type(ex).__name__, '%s: %s' % (name, str(ex)[:80])))
    return found


def alphabet(name, tier):
    own = hist.reduced_alphabet(name) if tier == 'quick' else lib.content_model(name).names
    own = own[:6] if tier == 'quick' else own[:14]
    return own + [f for f in FOREIGN_NAMES if f not in lib.content_model(name).names][:2]


def per_step(w, st):
    k = st.op[0]
    own = lib.content_model(w.name).names
    if not st.ok:
        if st.exc == 'ValueError' and k in ('REMOVE', 'REPLACE', 'SELF') and st.op[1] >= getattr(w, '_n_before', 0):
            return []        # a child that is not there
        if st.exc == 'AttributeError' and k.startswith('DOT') and st.op[1] not in own:
            return []        # unknown dot name
        if k == 'DOTVAL' and st.exc in ('TypeError', 'ValueError'):
            return []
        if k == 'ADDSTALE' and st.where and 'xmlelement.py:add_child' not in st.where and st.exc in ('XMLChildContainerWrongElementError',):
            return []        # the checked helper element refused the child: not about the unchecked one
        return [('unchecked-element-raises:%s:%s' % (k, st.exc), '%s -> %s: %s (at %s)' % (st.op, st.exc, st.msg[:80], st.where))]
    e = w.e
    lid = [id(c) for c in w.live]
    if [id(c) for c in e.get_children(ordered=False)] != lid or [id(c) for c in e.get_children(ordered=True)] != lid:
        return [('unchecked-children-not-in-insertion-order', 'after %s: %s expected %s' % (st.op, w.names(e.get_children()), w.names(w.live)))]
    if k == 'TOSTRING':
        tags = hist.out_children(st.text)
        if tags != w.names(w.live):
            return [('unchecked-output-not-in-insertion-order', 'output %s children %s' % (tags, w.names(w.live)))]
    return []


def pre_step(w):
    w._n_before = len(w.live)


def judge(w):
    found = []
    st = w.apply(['TOSTRING', 0])
    found.extend(per_step(w, st))
    ops = [s.op for s in w.steps[:-1]]
    if not found and ops and all(o[0] == 'ADD' for o in ops) and all(s.ok for s in w.steps):
        names = [o[1] for o in ops]
        if w.model.member(names):
            tw = hist.run_ops(w.name, ops, xsd_check=True)
            if all(s.ok for s in tw.steps):
                t2 = tw.apply(['TOSTRING', 0])
                if t2.ok and [id(c) for c in tw.e.get_children(ordered=True)] == [id(c) for c in tw.live] and t2.text != st.text:
                    found.append(('valid-word-differs-from-checked-twin', 'word %s: unchecked %r checked %r' % (names, st.text[:80], t2.text[:80])))
    return found


def judge_concrete(name, ops, extra):
    found = []
    w = hist.World(name, xsd_check=False)
    for op in ops:
        pre_step(w)
        st = w.apply(list(op))
        found.extend(per_step(w, st))
    found.extend(judge(w))
    return found


# ------------------------------------------------------------------ mixed trees
def mixed(name):
    """-> findings for checked/unchecked mixtures around element `name`"""
    found = []
    m = lib.content_model(name)
    cls = lib.cls_of(name)
    foreign = [f for f in FOREIGN_NAMES if f not in m.names][0]
    required = not m.member(())
    with lib.Capture():
        # (a) checked node under an unchecked root
        holder = lib.make('miscellaneous', xsd_check=False) if name != 'miscellaneous' else lib.make('work', xsd_check=False)
        c = lib.make(name, xsd_check=True)
        try:
            holder.add_child(c)
        except Exception as ex:
            found.append(('unchecked-element-raises:ADD:%s' % type(ex).__name__, 'adding checked %s to unchecked holder' % name))
            return found
        try:
            c.add_child(lib.make(foreign, xsd_check=False))
            found.append(('checked-node-in-unchecked-tree-accepts-invalid-child', '%s accepted %s' % (name, foreign)))
        except Exception:
            pass
        if required:
            try:
                c.to_string()
                found.append(('checked-node-in-unchecked-tree-serialises-incomplete', name))
            except Exception:
                pass
        # (b) unchecked node inside a checked tree
        u = lib.make(name, xsd_check=False)
        try:
            u.add_child(lib.make(foreign, xsd_check=False))
        except Exception as ex:
            found.append(('unchecked-element-raises:ADD:%s' % type(ex).__name__, 'foreign child'))
            return found
        parents = [p for p in lib.MODEL['elements'] if lib.content_model(p) is not None and name in lib.content_model(p).names]
        for p in parents[:2]:
            spec = docs.minimal(p)
            kids = [k for k in spec['children'] if k['name'] == name]
            try:
                pe = docs.build_api(spec)
                old = [k for k in pe.get_children(ordered=False) if k.name == name]
                if old:
                    pe.replace_child(old[0], u)
                else:
                    pe.add_child(u)
            except Exception:
                continue
            try:
                pe.to_string()
            except Exception as ex:
                if name in str(ex) or lib.class_name(name) in str(ex):
                    found.append(('unchecked-node-in-checked-tree-is-validated', 'parent %s: %s: %s' % (p, type(ex).__name__, str(ex)[:80])))
            break
    return found


def run_unit(name, tier, seed):
    if name.startswith('L:'):
        import collections as _c
        nm = name[2:]
        f = leaf_scenario(nm)
        return dict(stats=_c.Counter(paths=1, decisions=1), cands=[dict(cls=nm, kind=k, witness=dict(leaf=True), detail=d) for k, d in f],
                    samples=[], nontrivial=1, evaluations=1, funcs=['xmlelement/xmlelement.py:XMLElement.add_child'], bounds=dict(scenario='add 2 foreign children, serialise, replace, remove'))
    A = alphabet(name, tier)
    passes = [dict(kinds_by_depth=lambda d: KINDS if d <= 2 else ['ADD', 'REMOVE', 'REPLACE', 'DOTSET', 'DOTNONE', 'ADDSTALE'], D=6,
                   budget=2500 if tier == 'quick' else 30000, fwd=(-1, 2), alphabet=A)]
    r = f1.multi(name, passes, judge, judge_concrete, per_step=per_step, pre_step=pre_step, xsd_check=False)
    for kind, detail in mixed(name):
        r['cands'].append(dict(cls=name, kind=kind, witness=dict(mixed=True), detail=detail))
    r['evaluations'] += 1
    return r


def replay(c):
    if c['witness'].get('leaf'):
        for k, d in leaf_scenario(c['cls']):
            if k == c['kind']:
                return True, d
        return False, 'unchecked leaf-type element behaves'
    if c['witness'].get('mixed'):
        for k, d in mixed(c['cls']):
            if k == c['kind']:
                return True, d
        return False, 'mixed tree behaves'
    if c['kind'] == 'hang':
        return (True, 'exceeded 30 s again') if hist.hangs(c['cls'], c['witness']['ops'], xsd_check=False) else (False, 'finished within the limit')
    for k, d in judge_concrete(c['cls'], c['witness']['ops'], c['witness']):
        if k == c['kind']:
            return True, d
    return False, 'unchecked element behaves'


def describe():
    return dict(
        rule='breadth-first exploration of reachable states of an element created with xsd_check=False over 10 operation kinds, alphabet = own '
             'children (<= 6 quick / 14 thorough) + 2 foreign elements; ADD-only histories that spell a valid word are compared byte for byte with '
             'the checked twin; two mixed trees per class; non-trivial = every history',
        functions=['xmlelement/xmlelement.py:XMLElement.add_child', 'XMLElement.remove', 'XMLElement.replace_child', 'XMLElement.get_children',
                   'XMLElement.to_string', 'XMLElement._final_checks', 'XMLElement._convert_attribute_to_child'],
        bounds=dict(depth=6, budget='2500 quick / 30000 thorough per class', outside='deeper mixtures of checked and unchecked nodes'),
        assumptions=['ValueError for a child that is not there and AttributeError for an unknown dot name are the documented non-structural errors'],
        exhaustive_within_bounds=True)
