"""C12 — where the schema fixes the order, insertion order does not matter; a still-compatible
child is never rejected.
(a) multisets with exactly one schema-valid arrangement (decided by z3: two arrangement queries) are
    fed to the real add_child in every distinguishable permutation;
(b) after any all-accepted add history, a child whose addition keeps the multiset completable
    (Parikh formula, z3 LIA) must be accepted."""
import collections
import itertools
from .. import lib, hist, f1, lang, words

LEVEL = f1.LEVEL
BOUNDS = {'quick': dict(msize=4, multisets=60, perms=400, K=3, budget=1500),
          'thorough': dict(msize=6, multisets=800, perms=15000, K=4, budget=25000)}


def units(tier):
    return f1.all_units()


# ------------------------------------------------------------------ (a)
def judge_perm(name, perm, target):
    w = hist.World(name)
    for a in perm:
        st = w.apply(['ADD', a])
        if not st.ok:
            return [('unique-arrangement-rejected:%s' % st.exc, 'order %s, adding %s: %s' % (list(perm), a, st.msg[:80]))]
    od = w.e.get_children(ordered=True)
    names = w.names(od)
    if names != list(target):
        return [('unique-arrangement-misordered', 'order %s gives %s, schema fixes %s' % (list(perm), names, list(target)))]
    # same-named children in insertion order
    by = collections.defaultdict(list)
    for c in od:
        by[w.made[id(c)][0]].append(w.made[id(c)][1])
    for a, ser in by.items():
        if ser != sorted(ser):
            return [('same-named-children-reordered', 'order %s: %s serials %s' % (list(perm), a, ser))]
    st = w.apply(['TOSTRING', 0])
    if not st.ok:
        return [('unique-arrangement-incomplete:%s' % st.exc, 'order %s: %s' % (list(perm), st.msg[:100]))]
    if hist.out_children(st.text) != list(target):
        return [('unique-arrangement-misordered-output', 'order %s output %s' % (list(perm), hist.out_children(st.text)))]
    return []


def distinct_perms(word, limit):
    seen = set()
    out = []
    for p in itertools.permutations(word):
        if p not in seen:
            seen.add(p)
            out.append(p)
            if len(out) >= limit:
                break
    return out


def part_a(name, tier, stats, cands, samples):
    b = BOUNDS[tier]
    m = lib.content_model(name)
    A = hist.reduced_alphabet(name) if tier == 'quick' else m.names
    ws, complete, info = words.by_length(m, A, b['msize'], 4000 if tier == 'quick' else 40000)
    groups = collections.defaultdict(list)
    for w in ws:
        if 2 <= len(w) <= complete:
            groups[tuple(sorted(collections.Counter(w).items()))].append(w)
    uniq = [(k, v[0]) for k, v in sorted(groups.items()) if len(v) == 1]
    # spread over sizes: largest multisets are the most demanding, but keep small ones too
    uniq.sort(key=lambda kv: (len(kv[1]) % 2, -len(kv[1])))
    done = perms = 0
    for key, word in uniq:
        if done >= b['multisets'] or perms >= b['perms']:
            stats['truncated_units'] = 1
            break
        M = dict(key)
        arr = m.arrangements(M, limit=2)          # z3 decides uniqueness over the FULL alphabet
        if len(arr) != 1:
            stats['not_unique_over_full_alphabet'] += 1
            continue
        if tuple(arr[0]) != tuple(word):
            raise RuntimeError('arrangement oracle disagrees with NFA: %s vs %s' % (arr[0], word))
        done += 1
        for p in distinct_perms(word, 120 if tier == 'thorough' else 24):
            perms += 1
            stats['paths'] += 1
            f = judge_perm(name, p, word)
            for kind, detail in f:
                cands.append(dict(cls=name, kind=kind, witness=dict(part='a', order=list(p)), detail=detail))
        if len(samples) < 2:
            samples.append(dict(cls=name, multiset=M, unique_arrangement=list(word), permutations_fed=len(distinct_perms(word, 120))))
    stats['multisets_with_unique_arrangement'] += done
    return done, perms


# ------------------------------------------------------------------ (b)
def per_step(w, st):
    if st.ok or st.op[0] != 'ADD':
        return []
    if any(not s.ok for s in w.steps[:-1]):
        return []
    M = collections.Counter(w.names(w.live))
    M[st.op[1]] += 1
    if w.model.completable(dict(M)):
        return [('compatible-child-rejected:%s' % st.exc, 'holding %s, %s was rejected although %s is contained in a word of the content model'
                 % (w.names(w.live), st.op[1], dict(M)))]
    return []


def judge(w):
    return []


def judge_concrete(name, ops, extra):
    found = []
    hist.run_ops(name, ops, after=lambda w, st: found.extend(per_step(w, st)))
    return found[:1]


def run_unit(name, tier, seed):
    b = BOUNDS[tier]
    red = hist.reduced_alphabet(name)
    full = lib.content_model(name).names
    A = red if tier == 'quick' else full
    r = f1.multi(name, [dict(kinds=['ADD'], D=8, budget=b['budget'], alphabet=A)],
                 judge, judge_concrete, per_step=per_step, stop_on_fail=True)
    cands = []
    ms, perms = part_a(name, tier, r['stats'], cands, r['samples'])
    # reduce part (a) candidates: drop one element while the multiset keeps a unique arrangement and the kind persists
    m = lib.content_model(name)
    out = {}
    for c in cands:
        order = list(c['witness']['order'])
        changed = True
        while changed:
            changed = False
            for i in range(len(order)):
                t = order[:i] + order[i + 1:]
                arr = m.arrangements(dict(collections.Counter(t)), limit=2) if len(t) >= 2 else []
                if len(arr) == 1 and c['kind'] in [k for k, _ in judge_perm(name, t, arr[0])]:
                    order = t
                    changed = True
                    break
        rc = dict(c, witness=dict(part='a', order=order))
        out.setdefault((rc['kind'], repr(rc['witness'])), rc)
    r['cands'].extend(out.values())
    r['nontrivial'] += perms
    r['evaluations'] += perms
    r['bounds']['part_a'] = dict(multiset_size=b['msize'], multisets=ms, permutations=perms)
    f1.oracle_stats(r['stats'])
    return r


def replay(c):
    if c['kind'] == 'hang':
        return (True, 'exceeded 30 s again') if hist.hangs(c['cls'], c['witness']['ops']) else (False, 'finished within the limit')
    if c['witness'].get('part') == 'a':
        m = lib.content_model(c['cls'])
        order = c['witness']['order']
        arr = m.arrangements(dict(collections.Counter(order)), limit=2)
        if len(arr) != 1:
            return False, 'multiset does not have a unique arrangement'
        for k, d in judge_perm(c['cls'], order, arr[0]):
            if k == c['kind']:
                return True, d
        return False, 'accepted and arranged as the schema fixes'
    for k, d in judge_concrete(c['cls'], c['witness']['ops'], c['witness']):
        if k == c['kind']:
            return True, d
    return False, 'child accepted or not compatible'


def describe():
    return dict(
        rule='(a) multisets (size <= bound) whose arrangement is unique by two z3 arrangement queries, every distinguishable permutation fed '
             'to add_child; (b) ADD-only histories of <= K+1 operations, the last rejected child judged by the Parikh formula; '
             'non-trivial = permutations fed + histories',
        functions=['xmlelement/xmlelement.py:XMLElement.add_child', 'XMLElement.get_children', 'xmlelement/xmlchildcontainer.py:XMLChildContainer.add_element',
                   'XMLChildContainer._check_choices_intelligently', 'XMLChildContainer._duplicate_parent_in_path'],
        bounds=dict(BOUNDS, outside='larger multisets, longer histories'),
        assumptions=['arrangement uniqueness is decided over the full alphabet of the type', 'children built with xsd_check=False'],
        exhaustive_within_bounds=True)
