"""C01 — whenever to_string() of a checked element returns, the serialised child sequence is a
word of the schema's content model.  F1 histories over all operation kinds; oracle = z3 regex
membership against the pinned reference model (NFA cross-check)."""
from .. import lib, hist, f1, lang

LEVEL = f1.LEVEL
KINDS = hist.KINDS


def units(tier):
    return f1.all_units()


def _check_text(w, text, found, where):
    m = w.model
    try:
        tags = hist.out_children(text)
    except Exception as e:
        found.append(('output-not-wellformed', repr(e)))
        return
    ok = m.member(tags)
    if ok != m.nfa().accepts(tags):
        raise RuntimeError('z3 regex membership and NFA disagree on %s %s' % (w.name, tags))
    if not ok:
        found.append(('invalid-output', '%s: children %s' % (where, tags)))


def judge(w):
    found = []
    for s in w.steps:
        if s.op[0] == 'TOSTRING' and s.ok:
            _check_text(w, s.text, found, 'to_string(ic=%s) in history' % s.op[1])
    ic = bool(getattr(w, 'final_ic', False))
    st = w.apply(['TOSTRING', int(ic)])
    if st.ok:
        w.reached = True
        _check_text(w, st.text, found, 'final to_string(ic=%s)' % ic)
    # at most one finding per path, the first
    return found[:1]


def judge_concrete(name, ops, extra):
    w = hist.run_ops(name, ops)
    w.final_ic = bool(extra.get('ic', False))
    return judge(w)


def run_unit(name, tier, seed):
    return f1.multi(name, f1.std_passes(name, tier), judge, judge_concrete, final_ic=(0, 1))


def replay(c):
    if c['kind'] == 'hang':
        return (True, 'exceeded 30 s again') if hist.hangs(c['cls'], c['witness']['ops']) else (False, 'finished within the limit')
    found = judge_concrete(c['cls'], c['witness']['ops'], c['witness'])
    for k, d in found:
        if k == c['kind']:
            return True, d
    return False, 'output valid or to_string raised'


def describe():
    return dict(
        rule='every operation (10 kinds, all operands solver decisions) from every state reachable within the depth bound per element class, '
             'breadth-first within a path budget; distinct = distinct (state, operation) transitions executed on the real code; non-trivial = all (every path ends in to_string)',
        functions=['xmlelement/xmlelement.py:XMLElement.add_child', 'XMLElement.remove', 'XMLElement.replace_child',
                   'XMLElement.__setattr__', 'XMLElement._convert_attribute_to_child', 'XMLElement.to_string',
                   'XMLElement._final_checks', 'xmlelement/xmlchildcontainer.py:XMLChildContainer.add_element',
                   'XMLChildContainer.check_required_elements', 'XMLChildContainer._check_choices_intelligently'],
        bounds=dict(exploration='breadth-first over reachable states (structural fingerprints merge equal states), depth <= 8 quick / 10 thorough; every state expanded by all 10 operation kinds at depth <= 2 (3), by ADD REMOVE REPLACE DOTSET DOTNONE SELF deeper; path budget 3500 quick / 45000 thorough per class (breadth-first order: the cut removes the deepest states)', forward='[-1,2] quick, [-2,4] thorough', positions='0..3 plus one absent-child class',
                    alphabet='symmetry-reduced in quick (first, second, last of interchangeable choice leaves), full in thorough',
                    outside='longer histories; nested documents (C08 harness)'),
        assumptions=['children are built with xsd_check=False so exactly one level is under test',
                     'oracle: z3 regex membership in the content model of the pinned reference model',
                     'quick tier assumes the matcher distinguishes names only by equality and position (symmetry reduction)'],
        exhaustive_within_bounds=True)
