"""Solver-checked word sets of a content model: the NFA proposes the words of length L over an
alphabet, z3 confirms each one is in L(R) and closes the set with an `unsat` query
(no further word of that length over that alphabet exists)."""
import z3
from . import lang, rx


def by_length(model, alphabet, maxlen, limit):
    """-> (words, complete_len, info).  words sorted by length; lengths <= complete_len are complete
    (closure query unsat), the next length may be cut at the limit."""
    d = model.nfa()
    words = []
    complete = -1
    info = dict(closure_unsat=0, member_checks=0)
    level = [((), d.start)]
    alpha_re = z3.Star(rx.cls([model.sym[a] for a in alphabet])) if alphabet else z3.Re(z3.StringVal(''))
    for L in range(0, maxlen + 1):
        here = [w for w, S in level if d.final in S]
        room = limit - len(words)
        cut = len(here) > room
        take = here[:max(0, room)]
        for w in take:
            if not model.member(w):
                raise RuntimeError('NFA word %s rejected by z3 regex' % (w,))
            info['member_checks'] += 1
        words.extend(take)
        if cut:
            break
        # closure: no other word of length L over the alphabet
        v = z3.String('w')
        s = z3.Solver()
        s.set('timeout', 120000)
        s.add(z3.InRe(v, model.re), z3.InRe(v, alpha_re), z3.Length(v) == L)
        for w in here:
            s.add(v != z3.StringVal(model.encode(w)))
        r = lang._timed_check(s, 'closure')
        if r != 'unsat':
            raise RuntimeError('closure query not unsat for length %d: %s' % (L, r))
        info['closure_unsat'] += 1
        complete = L
        if L == maxlen:
            break
        nxt = []
        for w, S in level:
            for a in alphabet:
                T = d.step(S, a)
                if T:
                    nxt.append((w + (a,), T))
        level = nxt
        if len(level) > 400000:
            break
    return words, complete, info
