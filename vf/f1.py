"""Common plumbing for the F1 (history) property modules."""
import collections
from . import lib, hist, lang

LEVEL = 'model_checking'


def all_units():
    """largest alphabets first (longest units are scheduled first)"""
    return sorted(lib.element_content_names(), key=lambda n: -len(lib.content_model(n).names))


def budget_for(name, tier, table):
    """table: dict tier -> (K_small, K_mid, K_large, budget); alphabet thresholds 6 / 14"""
    A = hist.reduced_alphabet(name) if tier == 'quick' else lib.content_model(name).names
    ks, km, kl, budget = table[tier]
    n = len(A)
    K = ks if n <= 6 else km if n <= 14 else kl
    return A, K, budget


def multi(name, passes, judge, judge_concrete, per_step=None, final_ic=None, xsd_check=True, stop_on_fail=False):
    """passes: list of dict(kinds, K, budget, fwd, alphabet).  Results merged; bounds listed per pass."""
    total = None
    for i, ps in enumerate(passes):
        r = hist.explore(name, ps['K'], ps['budget'], ps['kinds'], judge, alphabet=ps.get('alphabet'),
                         fwd=ps.get('fwd', (-1, 2)), final_ic=final_ic, per_step=per_step, xsd_check=xsd_check,
                         trace_funcs=(i == 0), stop_on_fail=stop_on_fail)
        if total is None:
            total = r
            total['bounds'] = {'pass0': r['bounds']}
        else:
            for k, v in r['stats'].items():
                total['stats'][k] += v
            total['cands'].extend(r['cands'])
            total['samples'].extend(r['samples'])
            total['nontrivial'] += r['nontrivial']
            total['evaluations'] += r['evaluations']
            total['bounds']['pass%d' % i] = r['bounds']
    return finish(total, name, judge_concrete)


CORE = ['ADD', 'REMOVE', 'REPLACE', 'DOTSET', 'DOTNONE']


def std_passes(name, tier, scale=1.0):
    """wide pass: all kinds, K=2; deep pass: core kinds, K=3 (4 for tiny alphabets in thorough)"""
    red = hist.reduced_alphabet(name)
    full = lib.content_model(name).names
    if tier == 'quick':
        n = len(red)
        return [dict(kinds=hist.KINDS, K=2, budget=int(1000 * scale), fwd=(-1, 2), alphabet=red),
                dict(kinds=CORE, K=3 if n <= 8 else 2, budget=int(2000 * scale), alphabet=red)]
    n = len(full)
    return [dict(kinds=hist.KINDS, K=3 if n <= 5 else 2, budget=int(12000 * scale), fwd=(-2, 4), alphabet=full),
            dict(kinds=CORE, K=4 if n <= 6 else 3 if n <= 16 else 2, budget=int(28000 * scale), alphabet=full)]


def oracle_stats(stats):
    for k, v in lang.STATS.items():
        if k == 'solver_s':
            stats['solver_s'] += v
        else:
            stats['oracle.' + k] += v
            if k.endswith('.calls'):
                stats['solver_calls'] += v
            if k.endswith('.sat'):
                stats['solver_sat'] += v
            if k.endswith('.unsat'):
                stats['solver_unsat'] += v
    lang.STATS.clear()


def finish(r, name, judge_concrete, max_cands=60):
    """reduce candidates on the real code, dedupe"""
    out = {}
    red_cache = {}
    for c in r['cands']:
        if c['kind'] == 'hang':
            if not hist.hangs(name, c['witness']['ops']):
                r['stats']['slow_paths_not_reproduced'] += 1      # machine load, not the library
                continue
            out[repr(c['witness'])] = c
            continue
        key0 = (c['kind'], repr(c['witness']))
        if key0 in red_cache:
            continue
        rc = hist.reduce_ops(name, c, judge_concrete)
        red_cache[key0] = rc
        k = (rc['kind'], repr(rc['witness']))
        if k not in out:
            out[k] = rc
    r['stats']['cands_raw'] = len(r['cands'])
    r['cands'] = list(out.values())
    oracle_stats(r['stats'])
    return r
