"""Common plumbing for the F1 (history) property modules."""
import collections
from . import lib, hist, lang

LEVEL = 'model_checking'


def all_units():
    """largest alphabets first (longest units are scheduled first)"""
    return sorted(lib.element_content_names(), key=lambda n: -len(lib.content_model(n).names))


def budget_for(name, tier, table):
    """table: dict tier -> (K_small, K_mid, K_large, budget); alphabet thresholds 6 / 14"""
    A = hist.reduced_alphabet(name) if tier == 'quick' else lib.content_model(name).names
    ks, km, kl, budget = table[tier]
    n = len(A)
    K = ks if n <= 6 else km if n <= 14 else kl
    return A, K, budget


def multi(name, passes, judge, judge_concrete, per_step=None, final_ic=None, xsd_check=True, stop_on_fail=False, pre_step=None):
    """passes: list of dict(kinds_by_depth | kinds, D | K, budget, fwd, alphabet).  Each pass is a breadth-first
    exploration of reachable states (hist.explore_states).  Results merged; bounds listed per pass."""
    total = None
    for i, ps in enumerate(passes):
        kinds = ps.get('kinds')
        kb = ps.get('kinds_by_depth') or (lambda d, kinds=kinds: kinds)
        r = hist.explore_states(name, ps.get('D', ps.get('K')), ps['budget'], kb, judge, alphabet=ps.get('alphabet'),
                                fwd=ps.get('fwd', (-1, 2)), final_ic=final_ic, per_step=per_step, xsd_check=xsd_check,
                                trace_funcs=(i == 0), stop_on_fail=stop_on_fail, prefixes=ps.get('prefixes'), pre_step=pre_step)
        if total is None:
            total = r
            total['bounds'] = {'pass0': r['bounds']}
        else:
            for k, v in r['stats'].items():
                total['stats'][k] += v
            total['cands'].extend(r['cands'])
            total['samples'].extend(r['samples'])
            total['nontrivial'] += r['nontrivial']
            total['evaluations'] += r['evaluations']
            total['bounds']['pass%d' % i] = r['bounds']
    return finish(total, name, judge_concrete)


CORE = ['ADD', 'REMOVE', 'REPLACE', 'DOTSET', 'DOTNONE', 'SELF']


def std_passes(name, tier, scale=1.0):
    """one breadth-first pass over reachable states: all 8 operation kinds from states at depth <= 2 (quick) / 3 (thorough),
    the five core kinds (ADD REMOVE REPLACE DOTSET DOTNONE) from deeper states; depth bound 8 (fixpoint for small types)"""
    red = hist.reduced_alphabet(name)
    full = lib.content_model(name).names
    if tier == 'quick':
        return [dict(kinds_by_depth=lambda d: hist.KINDS if d <= 2 else CORE, D=8, budget=int(3500 * scale), fwd=(-1, 2), alphabet=red)]
    return [dict(kinds_by_depth=lambda d: hist.KINDS if d <= 3 else CORE, D=10, budget=int(45000 * scale), fwd=(-2, 4), alphabet=full)]


def oracle_stats(stats):
    for k, v in lang.STATS.items():
        if k == 'solver_s':
            stats['solver_s'] += v
        else:
            stats['oracle.' + k] += v
            if k.endswith('.calls'):
                stats['solver_calls'] += v
            if k.endswith('.sat'):
                stats['solver_sat'] += v
            if k.endswith('.unsat'):
                stats['solver_unsat'] += v
    lang.STATS.clear()


def _subseq(small, big):
    it = iter(big)
    return all(any(x == y for y in it) for x in small)


def finish(r, name, judge_concrete, max_reduce=250):
    """reduce candidates on the real code (shortest first; a candidate that contains an already reduced witness of the
    same kind as a subsequence is attributed to it), dedupe"""
    out = {}
    minimal = collections.defaultdict(list)
    raw = sorted(r['cands'], key=lambda c: (len(c['witness'].get('ops', [])), repr(c['witness'])))
    reduced = 0
    for c in raw:
        if c['kind'] == 'hang':
            if not hist.hangs(name, c['witness']['ops']):
                r['stats']['slow_paths_not_reproduced'] += 1      # machine load, not the library
                continue
            out[repr(c['witness'])] = c
            continue
        extra = {k: v for k, v in c['witness'].items() if k != 'ops'}
        if any(_subseq(m, c['witness']['ops']) for m in minimal[(c['kind'], repr(extra))]):
            r['stats']['cands_subsumed'] += 1
            continue
        if reduced >= max_reduce:
            r['stats']['cands_not_reduced'] += 1
            rc = c
        else:
            rc = hist.reduce_ops(name, c, judge_concrete)
            reduced += 1
        minimal[(c['kind'], repr(extra))].append(rc['witness']['ops'])
        k = (rc['kind'], repr(rc['witness']))
        if k not in out:
            out[k] = rc
    r['stats']['cands_raw'] = len(r['cands'])
    r['cands'] = list(out.values())
    oracle_stats(r['stats'])
    return r
