"""Glue to the library under test (/repo, imported as installed) and to the pinned reference model."""
import contextlib
import io
import os
import sys
import warnings

warnings.simplefilter('ignore')
sys.dont_write_bytecode = True

from . import refmodel, lang, lex  # noqa: E402

MODEL = refmodel.load()

_X = None


def X():
    """the library's xmlelement module (imported lazily, quietly)"""
    global _X
    if _X is None:
        buf = io.StringIO()
        with contextlib.redirect_stdout(buf), contextlib.redirect_stderr(buf):
            import musicxml.xmlelement.xmlelement as m
        _X = m
    return _X


def class_name(el_name):
    """the documented naming rule, re-implemented here (oracle side)"""
    return 'XML' + ''.join(p[:1].upper() + p[1:] for p in el_name.split('-'))


def dot_name(el_name):
    return 'xml_' + el_name.replace('-', '_')


def cls_of(el_name):
    return getattr(X(), class_name(el_name))


def element_classes():
    m = X()
    return {n: c for n, c in vars(m).items()
            if isinstance(c, type) and issubclass(c, m.XMLElement) and c is not m.XMLElement}


def type_of(el_name):
    """(type name, complex record or None, resolved simple type or None) from the reference model"""
    tn = MODEL['elements'][el_name]
    if tn in MODEL['complex']:
        c = MODEL['complex'][tn]
        sb = c['simple_base']
        return tn, c, (refmodel.resolve_simple(MODEL, sb) if sb else None)
    return tn, None, refmodel.resolve_simple(MODEL, tn)


_CM = {}


def content_model(el_name):
    """lang.Model of the element's content (None if it has no element content)"""
    if el_name not in _CM:
        tn, c, _ = type_of(el_name)
        _CM[el_name] = lang.Model(c['content']) if c and c['content'] else None
    return _CM[el_name]


def element_content_names():
    return sorted(n for n in MODEL['elements'] if type_of(n)[1] and type_of(n)[1]['content'])


_VAL = {}


_TVAL = {}


def sample_for(resolved_type):
    import json
    k = json.dumps(resolved_type, sort_keys=True)
    if k not in _TVAL:
        _TVAL[k] = lex.Lex(resolved_type).sample_value()
    return _TVAL[k]


def valid_value(el_name):
    """a solver-chosen valid value for the element's simple content (None if it has none)"""
    if el_name not in _VAL:
        tn, c, st = type_of(el_name)
        _VAL[el_name] = None if st is None else sample_for(st)
    return _VAL[el_name]


_ALT = {}


def alt_value(el_name):
    """a second valid value for the element's simple content, different from valid_value (None if there is none)"""
    if el_name not in _ALT:
        tn, c, st = type_of(el_name)
        v = valid_value(el_name)
        if st is None:
            _ALT[el_name] = None
        else:
            try:
                a = lex.Lex(st).sample_value(avoid=[v])
            except Exception:
                a = None
            _ALT[el_name] = a if a != v else None
    return _ALT[el_name]


_ATTR = {}


def required_attrs(el_name):
    """{python keyword: solver-chosen valid value} for the schema-required attributes"""
    if el_name not in _ATTR:
        tn, c, _ = type_of(el_name)
        out = {}
        if c:
            for a in c['attrs']:
                if a['required']:
                    v = a['fixed'] if a.get('fixed') else sample_for(refmodel.attr_type(MODEL, a))
                    out[a['name']] = v
        _ATTR[el_name] = out
    return _ATTR[el_name]


def has_attr(el_name, attr):
    tn, c, _ = type_of(el_name)
    return bool(c) and any(a['name'] == attr for a in c['attrs'])


def make(el_name, xsd_check=True, serial=None, with_required=True):
    """instance of the real element class with solver-chosen valid value / required attributes.
    `serial` marks the instance in its serialisation where the schema allows it (id attribute or
    free text), so order can be compared by identity in the output too."""
    cls = cls_of(el_name)
    tn, c, st = type_of(el_name)
    kw = {}
    if with_required:
        for k, v in required_attrs(el_name).items():
            if ':' in k:
                continue      # namespaced attributes are not settable by keyword (C04 matter)
            kw[k.replace('-', '_')] = v
    val = valid_value(el_name)
    if serial is not None:
        if st is not None and st['kind'] == 'string' and not st.get('enums') and not st.get('patterns'):
            val = 'c%d' % serial
        elif has_attr(el_name, 'id'):
            kw['id'] = 'c%d' % serial
    if val is None:
        return cls(xsd_check=xsd_check, **kw)
    return cls(val, xsd_check=xsd_check, **kw)


class Capture:
    """captures stdout/stderr written by the library during a block"""

    def __enter__(self):
        self.out = io.StringIO()
        self._o, self._e = sys.stdout, sys.stderr
        sys.stdout = sys.stderr = self.out
        return self

    def __exit__(self, *a):
        sys.stdout, sys.stderr = self._o, self._e

    @property
    def text(self):
        return self.out.getvalue()


def repo_version():
    """identifies the tree the run looked at (for evidence)"""
    import subprocess
    try:
        h = subprocess.run(['git', '-C', '/repo', 'rev-parse', 'HEAD'], capture_output=True, text=True).stdout.strip()
        d = subprocess.run(['git', '-C', '/repo', 'status', '--porcelain', '--', 'musicxml'], capture_output=True,
                           text=True).stdout.strip()
        return h + ('+dirty' if d else '')
    except Exception:
        return 'unknown'
