"""z3 language oracles for XSD content models (particles are the JSON lists of refmodel).

particle := ['el', name, min, max] | ['seq'|'cho', [particle...], min, max]   (max None = unbounded)
"""
import collections
import itertools
import time
import z3

STATS = collections.Counter()      # solver calls by family/answer, seconds


def _timed_check(s, family):
    t = time.time()
    r = str(s.check())
    STATS['%s.%s' % (family, r)] += 1
    STATS['%s.calls' % family] += 1
    STATS['solver_s'] = STATS.get('solver_s', 0) + (time.time() - t)
    if r == 'unknown':
        raise SolverUnknown(family)
    return r


class SolverUnknown(Exception):
    pass


def names_of(p, out=None):
    out = [] if out is None else out
    if p is None:
        return out
    if p[0] == 'el':
        if p[1] not in out:
            out.append(p[1])
    else:
        for c in p[1]:
            names_of(c, out)
    return out


def symtab(names):
    """one private-use-free character per element name (stable order)"""
    chars = [chr(c) for c in itertools.chain(range(0x41, 0x5b), range(0x61, 0x7b), range(0x30, 0x3a),
                                             range(0xc0, 0x17f))]
    assert len(names) <= len(chars), len(names)
    return {n: chars[i] for i, n in enumerate(names)}


EPS = None


def _eps():
    return z3.Re(z3.StringVal(''))


def _rep(r, lo, hi):
    if hi is None:
        if lo == 0:
            return z3.Star(r)
        if lo == 1:
            return z3.Plus(r)
        return z3.Concat(z3.Loop(r, lo, lo), z3.Star(r))
    if (lo, hi) == (1, 1):
        return r
    if (lo, hi) == (0, 1):
        return z3.Option(r)
    return z3.Loop(r, lo, hi)


def to_z3re(p, sym):
    if p is None:
        return _eps()
    k = p[0]
    if k == 'el':
        body = z3.Re(z3.StringVal(sym[p[1]]))
    elif k == 'seq':
        rs = [to_z3re(c, sym) for c in p[1]]
        body = _eps() if not rs else rs[0] if len(rs) == 1 else z3.Concat(*rs)
    else:
        rs = [to_z3re(c, sym) for c in p[1]]
        body = z3.Empty(z3.ReSort(z3.StringSort())) if not rs else rs[0] if len(rs) == 1 else z3.Union(*rs)
    return _rep(body, p[2], p[3])


class Model:
    """Content model of one type with cached z3 regex; all queries counted in STATS."""

    def __init__(self, particle):
        self.p = particle
        self.names = names_of(particle)
        self.sym = symtab(self.names)
        self.rsym = {v: k for k, v in self.sym.items()}
        self.re = to_z3re(particle, self.sym)
        self._member_cache = {}
        self._nfa = None

    def encode(self, word):
        return ''.join(self.sym[a] for a in word)

    def member(self, word):
        """is the name sequence a word of the content model?  (z3 regex membership; foreign names -> False)"""
        word = tuple(word)
        if word in self._member_cache:
            return self._member_cache[word]
        if any(a not in self.sym for a in word):
            r = False
        else:
            s = z3.Solver()
            s.add(z3.InRe(z3.StringVal(self.encode(word)), self.re))
            r = _timed_check(s, 'member') == 'sat'
        self._member_cache[word] = r
        return r

    def nfa(self):
        if self._nfa is None:
            self._nfa = DFA(self.p)
        return self._nfa

    # ---- Parikh image: can multiset M be extended to (the multiset of) a word?
    def completable(self, M):
        key = ('P',) + tuple(sorted(M.items()))
        if key in self._member_cache:
            return self._member_cache[key]
        if any(a not in self.sym for a in M):
            r = False
        else:
            cs, cnt = parikh_constraints(self.p)
            s = z3.Solver()
            s.add(*cs)
            for a in self.names:
                s.add(z3.Sum(cnt[a]) >= M.get(a, 0))
            r = _timed_check(s, 'parikh') == 'sat'
        self._member_cache[key] = r
        return r

    def exact_multiset(self, M):
        """is there a word whose multiset is exactly M?"""
        key = ('E',) + tuple(sorted(M.items()))
        if key in self._member_cache:
            return self._member_cache[key]
        if any(a not in self.sym for a in M):
            r = False
        else:
            cs, cnt = parikh_constraints(self.p)
            s = z3.Solver()
            s.add(*cs)
            for a in self.names:
                s.add(z3.Sum(cnt[a]) == M.get(a, 0))
            r = _timed_check(s, 'parikh') == 'sat'
        self._member_cache[key] = r
        return r

    def arrangements(self, M, limit=2):
        """up to `limit` distinct words of the model whose multiset of names is exactly M"""
        L = sum(M.values())
        if L == 0:
            return [()] if self.member(()) else []
        cs = [z3.String('c%d' % i) for i in range(L)]
        w = z3.Concat(*cs) if L > 1 else cs[0]
        s = z3.Solver()
        s.add(z3.InRe(w, self.re))
        for c in cs:
            s.add(z3.Length(c) == 1)
        for a in self.names:
            s.add(z3.Sum([z3.If(c == z3.StringVal(self.sym[a]), 1, 0) for c in cs]) == M.get(a, 0))
        out = []
        while len(out) < limit and _timed_check(s, 'arrange') == 'sat':
            m = s.model()
            word = [unescape(m.eval(c, model_completion=True).as_string()) for c in cs]
            out.append(tuple(self.rsym[ch] for ch in word))
            s.add(z3.Or([c != z3.StringVal(v) for c, v in zip(cs, word)]))
        return out

    def words(self, maxlen, alphabet=None):
        """all words of length <= maxlen over `alphabet` (default: all names), generated via the NFA
        and each confirmed by z3 membership by the caller if desired"""
        return self.nfa().words(alphabet or self.names, maxlen)


def unescape(s):
    """z3 as_string() escapes non-ASCII as \\u{XXXX}"""
    import re
    return re.sub(r'\\u\{([0-9a-fA-F]+)\}', lambda m: chr(int(m.group(1), 16)), s)


_ctr = itertools.count()


def parikh_constraints(p):
    cs = []
    cnt = collections.defaultdict(list)

    def rec(p, N):
        k = p[0]
        mi, ma = p[2], p[3]
        I = z3.Int('I%d' % next(_ctr))
        cs.append(I >= 0)
        cs.append(I >= N * mi)
        if ma is not None:
            cs.append(I <= N * ma)
        else:
            cs.append(z3.Implies(N == 0, I == 0))
        if k == 'el':
            cnt[p[1]].append(I)
        elif k == 'seq':
            for c in p[1]:
                rec(c, I)
        else:
            Ns = []
            for c in p[1]:
                Nc = z3.Int('N%d' % next(_ctr))
                cs.append(Nc >= 0)
                Ns.append(Nc)
                rec(c, Nc)
            cs.append(z3.Sum(Ns) == I if Ns else I == 0)
    rec(p, z3.IntVal(1))
    return cs, cnt


def equivalent(re_a, re_b, family='equiv'):
    """language equivalence of two z3 regexes: two inclusion queries. returns (bool, witness or None)"""
    w = z3.String('w')
    for a, b in ((re_a, re_b), (re_b, re_a)):
        s = z3.Solver()
        s.set('timeout', 60000)
        s.add(z3.InRe(w, a), z3.Not(z3.InRe(w, b)))
        if _timed_check(s, family) == 'sat':
            return False, unescape(s.model()[w].as_string())
    return True, None


# --------------------------------------------------------------------------------------------
# independent Thompson NFA (cross-check of the z3 regex translation; word generator)
class NFA:
    def __init__(self):
        self.n = 0
        self.eps = {}
        self.tr = {}

    def new(self):
        s = self.n
        self.n += 1
        self.eps[s] = set()
        self.tr[s] = []
        return s

    def build(self, p):
        k = p[0]
        mi, ma = p[2], p[3]

        def base():
            if k == 'el':
                s = self.new()
                e = self.new()
                self.tr[s].append((p[1], e))
                return s, e
            if k == 'seq':
                s = self.new()
                cur = s
                for c in p[1]:
                    cs, ce = self.build(c)
                    self.eps[cur].add(cs)
                    cur = ce
                return s, cur
            s = self.new()
            e = self.new()
            for c in p[1]:
                cs, ce = self.build(c)
                self.eps[s].add(cs)
                self.eps[ce].add(e)
            return s, e
        s = self.new()
        cur = s
        for _ in range(mi):
            bs, be = base()
            self.eps[cur].add(bs)
            cur = be
        e = self.new()
        if ma is None:
            bs, be = base()
            self.eps[cur].add(bs)
            self.eps[be].add(cur)
            self.eps[cur].add(e)
        else:
            self.eps[cur].add(e)
            for _ in range(ma - mi):
                bs, be = base()
                self.eps[cur].add(bs)
                cur = be
                self.eps[cur].add(e)
        return s, e

    def closure(self, S):
        st = list(S)
        seen = set(S)
        while st:
            x = st.pop()
            for y in self.eps[x]:
                if y not in seen:
                    seen.add(y)
                    st.append(y)
        return frozenset(seen)


class DFA:
    def __init__(self, p):
        n = NFA()
        if p is None:
            s = n.new()
            e = s
        else:
            s, e = n.build(p)
        self.nfa = n
        self.start = n.closure({s})
        self.final = e
        self.cache = {}
        # co-reachability (prune dead states so `viable` is exact)
        rev = collections.defaultdict(set)
        for x in range(n.n):
            for y in n.eps[x]:
                rev[y].add(x)
            for _, y in n.tr[x]:
                rev[y].add(x)
        live = {e}
        st = [e]
        while st:
            x = st.pop()
            for y in rev[x]:
                if y not in live:
                    live.add(y)
                    st.append(y)
        self.live = live

    def step(self, S, a):
        key = (S, a)
        if key not in self.cache:
            T = set()
            for x in S:
                for (b, y) in self.nfa.tr[x]:
                    if b == a and y in self.live:
                        T.add(y)
            self.cache[key] = self.nfa.closure(T) if T else frozenset()
        return self.cache[key]

    def run(self, w):
        S = self.start
        for a in w:
            S = self.step(S, a)
            if not S:
                return S
        return S

    def accepts(self, w):
        return self.final in self.run(w)

    def viable(self, w):
        return any(x in self.live for x in self.run(w))

    def words(self, alphabet, maxlen, limit=None):
        out = []

        def rec(w, S):
            if limit is not None and len(out) >= limit:
                return
            if self.final in S:
                out.append(tuple(w))
            if len(w) == maxlen:
                return
            for a in alphabet:
                T = self.step(S, a)
                if T:
                    rec(w + [a], T)
        rec([], self.start)
        return out
