"""Lexical / value spaces of the reference model's simple types as z3 formulas, plus an
independent concrete validator (`valid_text`) used when counterexamples are replayed.

Every type T gets two readings:  upper ⊇ (every reasonable reading of the schema) ⊇ lower.
  (a) accepted ⇒ emitted text valid   is judged against `upper`
  (b) valid normalised text ⇒ accepted   is judged against `lower`
For almost all types upper == lower; they differ for xs:date (pattern-only vs. calendar-aware),
xs:language (1st vs 2nd edition pattern), xs:anyURI.
"""
import itertools
import re
from decimal import Decimal, InvalidOperation
from fractions import Fraction
import z3

from . import rx

F64 = z3.Float64()
RNE = z3.RNE()

FIXED_CANDIDATES = ('en', 'de-CH', 'A', 'a1', '1', '#000000', '#40800080', '2000-01-01', '1999-12-31', 'x', 'accidentalSharp', 'coda', 'lyricsElision', 'pictA', 'segno', 'wiggleA', 'Arial', '1, 2', '3')
DATE_LOOSE = r'-?[0-9]{4,}-[0-9]{2}-[0-9]{2}(Z|[+\-][0-9]{2}:[0-9]{2})?'
DATE_STRICT = r'-?([1-9][0-9]{3,}|0[0-9]{3})-(0[1-9]|1[0-2])-(0[1-9]|1[0-9]|2[0-8])(Z|[+\-](0[0-9]|1[0-3]):[0-5][0-9])?'
LANG_1 = r'([a-zA-Z]{2}|[iI]-[a-zA-Z]+|[xX]-[a-zA-Z]{1,8})(-[a-zA-Z]{1,8})*'
LANG_2 = r'[a-zA-Z]{1,8}(-[a-zA-Z0-9]{1,8})*'
DECIMAL_LEX = r'[+\-]?([0-9]+(\.[0-9]*)?|\.[0-9]+)'
INTEGER_LEX = r'[+\-]?[0-9]+'


def _and(rs):
    rs = list(rs)
    return rs[0] if len(rs) == 1 else z3.Intersect(*rs)


class NoModel(Exception):
    pass


def canonical_str(s, var, sigma=None):
    """canonical model of a satisfiable solver state for a string variable: shortest, then least characters position by
    position (alphanumerics first): sample values must not depend on which model z3 happens to return"""
    from .lang import unescape
    sigma = sigma or rx.SIGMA
    L = None
    for n in range(0, 40):
        s.push()
        s.add(z3.Length(var) == n)
        if str(s.check()) == 'sat':
            L = n
            break
        s.pop()
    if L is None:
        raise NoModel('no length decided (solver timeout)')
    out = ''
    order = sorted(sigma, key=lambda c: (not (c.isascii() and c.isalnum()), c))
    for i in range(L):
        m = unescape(s.model().eval(var, model_completion=True).as_string())
        chosen = m[i]
        for ch in order:
            if ch == chosen:
                break
            s.push()
            s.add(z3.SubString(var, i, 1) == z3.StringVal(ch))
            ok = str(s.check()) == 'sat'
            s.pop()
            if ok:
                chosen = ch
                break
        s.push()
        s.add(z3.SubString(var, i, 1) == z3.StringVal(chosen))
        if str(s.check()) != 'sat':
            # solver gave up (timeout) on the narrowed query: keep the last full model, which satisfies everything asked
            s.pop()
            s.pop()
            for _ in range(i):
                s.pop()
            return m
        out += chosen
    for _ in range(L):
        s.pop()
    s.pop()
    return out


def normalised_re(ws, sigma=None):
    """z3 regex of strings already in whitespace-normalised form for facet ws"""
    sigma = sigma or rx.SIGMA
    if ws == 'preserve':
        return rx.sigma_star(sigma)
    if ws == 'replace':
        return z3.Star(rx.cls([c for c in sigma if c not in '\t\n\r']))
    ns = z3.Plus(rx.cls([c for c in sigma if c not in ' \t\n\r']))
    return z3.Option(z3.Concat(ns, z3.Star(z3.Concat(z3.Re(z3.StringVal(' ')), ns))))


def normalised(s, ws, sigma=None):
    """z3: string s is already in whitespace-normalised form for facet ws"""
    return z3.InRe(s, normalised_re(ws, sigma))


class Lex:
    """oracle for one resolved simple type (dict from refmodel.resolve_simple / attr_type)"""

    def __init__(self, T, sigma=None):
        self.T = T
        self.sigma = sigma or rx.SIGMA
        self.kind = T['kind']
        self.ws = T.get('ws', 'collapse')
        if self.kind == 'union':
            self.members = [Lex(m, sigma) for m in T['members']]

    # ------------------------------------------------------------ strings
    def _str_regex(self, upper):
        T = self.T
        parts = []
        if T.get('enums') is not None:
            parts.append(rx.alt([z3.Re(z3.StringVal(x)) for x in T['enums']]) if T['enums']
                         else rx.cls([]))
        for orlist in T.get('patterns', []):
            alts = []
            for p in orlist:
                if p == LANG_2:
                    alts.append(z3.Union(rx.xsd_to_z3(LANG_1, self.sigma), rx.xsd_to_z3(LANG_2, self.sigma)) if upper
                                else z3.Intersect(rx.xsd_to_z3(LANG_1, self.sigma), rx.xsd_to_z3(LANG_2, self.sigma)))
                else:
                    alts.append(rx.xsd_to_z3(p, self.sigma))
            parts.append(rx.alt(alts))
        if self.kind == 'date':
            parts.append(rx.xsd_to_z3(DATE_LOOSE if upper else DATE_STRICT, self.sigma))
        if not parts:
            parts.append(rx.sigma_star(self.sigma))
        return _and(parts)

    def str_ok(self, s, upper=True):
        """z3 Bool: python str s (whitespace-normalised) is valid text for T"""
        if self.kind == 'union':
            return z3.Or([m.str_ok(s, upper) for m in self.members])
        if self.kind in ('decimal', 'integer'):
            # a str offered to a numeric type: its text is what gets emitted
            lexre = rx.xsd_to_z3(DECIMAL_LEX if self.kind == 'decimal' else INTEGER_LEX, self.sigma)
            return z3.InRe(s, lexre) if upper else z3.BoolVal(False)
        cs = [z3.InRe(s, self._str_regex(upper))]
        for k, v in self.T.get('bounds', []):
            if k == 'minLength':
                cs.append(z3.Length(s) >= int(v))
            elif k == 'maxLength':
                cs.append(z3.Length(s) <= int(v))
        return z3.And(cs)

    # ------------------------------------------------------------ ints
    def _bounds(self):
        return [(k, Fraction(v)) for k, v in self.T.get('bounds', []) if k.startswith(('min', 'max')) and 'Length' not in k]

    def int_ok(self, n, upper=True):
        """z3 Bool: python int n (not bool) rendered by str() is valid for T; None = not decided"""
        if self.kind == 'union':
            parts = [m.int_ok(n, upper) for m in self.members]
            if any(p is None for p in parts):
                if upper:
                    return None
                parts = [p for p in parts if p is not None]
            return z3.Or(parts) if parts else z3.BoolVal(False)
        if self.kind in ('decimal', 'integer'):
            cs = []
            for k, v in self._bounds():
                num, den = v.numerator, v.denominator
                cs.append({'minInclusive': n * den >= num, 'minExclusive': n * den > num,
                           'maxInclusive': n * den <= num, 'maxExclusive': n * den < num}[k])
            return z3.And(cs) if cs else z3.BoolVal(True)
        if self.kind == 'string' and not self.T.get('patterns') and not self.T.get('bounds'):
            if self.T.get('enums') is None:
                return z3.BoolVal(True) if upper else z3.BoolVal(False)
            lits = [int(x) for x in self.T['enums'] if re.fullmatch(r'0|-?[1-9][0-9]*', x)]
            if not upper:
                return z3.BoolVal(False)
            return z3.Or([n == x for x in lits]) if lits else z3.BoolVal(False)
        return None       # needs str.from_int: not encoded (callers count it as not decided)

    # ------------------------------------------------------------ floats
    def fp_classes(self, x):
        """partition of the floats whose repr is NOT valid decimal text for T: list of (label, formula)"""
        ax = z3.fpAbs(x)
        fin = z3.And(z3.Not(z3.fpIsNaN(x)), z3.Not(z3.fpIsInf(x)))
        expfree = z3.Or(z3.fpIsZero(x), z3.And(z3.fpGEQ(ax, z3.FPVal(1e-4, F64)), z3.fpLT(ax, z3.FPVal(1e16, F64))))
        out = [('nan', z3.fpIsNaN(x)), ('inf', z3.And(z3.fpIsInf(x), z3.Not(z3.fpIsNegative(x)))),
               ('-inf', z3.And(z3.fpIsInf(x), z3.fpIsNegative(x))),
               ('small-exponent', z3.And(fin, z3.Not(z3.fpIsZero(x)), z3.fpLT(ax, z3.FPVal(1e-4, F64)))),
               ('large-exponent', z3.And(fin, z3.fpGEQ(ax, z3.FPVal(1e16, F64))))]
        for k, v in self._bounds():
            if v.denominator != 1 or abs(v.numerator) >= 2 ** 53:
                xr = z3.fpToReal(x)
                q = z3.RealVal(str(v))
                inb = {'minInclusive': xr >= q, 'minExclusive': xr > q, 'maxInclusive': xr <= q, 'maxExclusive': xr < q}[k]
            else:
                b = z3.FPVal(float(v), F64)
                inb = {'minInclusive': z3.fpGEQ(x, b), 'minExclusive': z3.fpGT(x, b),
                       'maxInclusive': z3.fpLEQ(x, b), 'maxExclusive': z3.fpLT(x, b)}[k]
            out.append(('violates-%s-%s' % (k, v), z3.And(fin, expfree, z3.Not(inb))))
        return out

    def fp_ok(self, x, upper=True):
        """z3 Bool: python float x rendered by repr() is valid for T (CPython repr lemma:
        exponent-free iff x == 0 or 1e-4 <= |x| < 1e16; non-finite -> nan/inf)"""
        if self.kind == 'union':
            parts = [m.fp_ok(x, upper) for m in self.members]
            if any(p is None for p in parts):
                if upper:
                    return None
                parts = [p for p in parts if p is not None]
            return z3.Or(parts) if parts else z3.BoolVal(False)
        if self.kind == 'decimal':
            return z3.Not(z3.Or([f for _, f in self.fp_classes(x)]))
        if self.kind == 'integer':
            return z3.BoolVal(False)       # repr(float) always has '.', 'e', 'inf' or 'nan'
        if self.kind == 'string' and not self.T.get('patterns') and not self.T.get('bounds'):
            if self.T.get('enums') is None:
                return z3.BoolVal(True) if upper else z3.BoolVal(False)
            return z3.BoolVal(False)       # no enumeration literal of the schema is a float repr
        return None

    def bool_ok(self):
        """is 'True'/'False' valid text for T (concrete)?"""
        return self.valid_text('True'), self.valid_text('False')

    # ------------------------------------------------------------ concrete validator (replay oracle)
    def collapse(self, text):
        if self.ws == 'preserve':
            return text
        t = re.sub('[\t\n\r]', ' ', text)
        if self.ws == 'replace':
            return t
        return re.sub(' +', ' ', t).strip(' ')

    def valid_text(self, text, upper=True):
        if self.kind == 'union':
            return any(m.valid_text(text, upper) for m in self.members)
        t = self.collapse(text)
        if self.kind in ('decimal', 'integer'):
            if not re.fullmatch(r'[+\-]?([0-9]+(\.[0-9]*)?|\.[0-9]+)' if self.kind == 'decimal' else r'[+\-]?[0-9]+', t):
                return False
            try:
                v = Fraction(Decimal(t))
            except InvalidOperation:
                return False
            for k, b in self._bounds():
                if not {'minInclusive': v >= b, 'minExclusive': v > b, 'maxInclusive': v <= b, 'maxExclusive': v < b}[k]:
                    return False
            return True
        sigma = sorted(set(self.sigma) | set(t))
        lx = Lex(self.T, sigma)
        s = z3.Solver()
        s.add(lx.str_ok(z3.StringVal(t), upper))
        return str(s.check()) == 'sat'

    # ------------------------------------------------------------ value generation (solver-chosen)
    def sample_value(self, prefer='auto', avoid=()):
        """a python value (str/int/float) that is valid for T by the lower reading, chosen by z3"""
        from .lang import unescape
        if self.kind == 'union':
            for m in self.members:
                v = m.sample_value(prefer, avoid)
                if v is not None:
                    return v
            return None
        s = z3.Solver()
        if self.kind in ('decimal', 'integer'):
            n = z3.Int('n')
            s.add(self.int_ok(n, upper=False))
            for a in avoid:
                if isinstance(a, int):
                    s.add(n != a)
            # the valid value closest to zero, positive preferred (canonical: independent of z3's model choice)
            if str(s.check()) != 'sat':
                return None
            for cand in itertools.chain.from_iterable((k, -k) for k in range(1, 2000)):
                s.push()
                s.add(n == cand)
                ok = str(s.check()) == 'sat'
                s.pop()
                if ok:
                    return cand
            s.push()
            s.add(n == 0)
            ok = str(s.check()) == 'sat'
            s.pop()
            if ok:
                return 0
            o = z3.Optimize()
            o.add(self.int_ok(n, upper=False), n >= 0)
            o.minimize(n)
            if str(o.check()) == 'sat':
                return o.model().eval(n, model_completion=True).as_long()
            return s.model().eval(n, model_completion=True).as_long()
        if self.T.get('enums'):
            for lit in self.T['enums']:
                if lit not in avoid:
                    return lit
        if self.T.get('patterns') or self.kind == 'date':
            # fixed candidates first: deterministic and fast; z3 only when none of them is in the lexical space
            for cand in FIXED_CANDIDATES:
                if cand not in avoid and self.valid_text(cand, upper=False) and self.collapse(cand) == cand:
                    return cand
        v = z3.String('v')
        s.set('timeout', 60000)
        nonempty = self.kind != 'string' or bool(self.T.get('patterns')) or bool(self.T.get('enums'))
        asc = rx.sigma_star([c for c in self.sigma if ord(c) < 127 and c not in '<>&"\''])
        s.add(self.str_ok(v, upper=False), z3.InRe(v, z3.Intersect(normalised_re(self.ws, self.sigma), asc)))
        for a in avoid:
            if isinstance(a, str):
                s.add(v != z3.StringVal(a))
        plain = z3.Plus(rx.cls([c for c in self.sigma if c.isascii() and (c.isalnum() or c in '#.-')]))
        for extra in ([z3.InRe(v, plain), z3.Length(v) <= 12], [z3.Length(v) >= 1, z3.Length(v) <= 12], [z3.Length(v) >= 1],
                      [] if not nonempty else None):
            if extra is None:
                continue
            s.push()
            s.add(*extra)
            r = str(s.check())
            if r == 'sat':
                try:
                    val = canonical_str(s, v, self.sigma)
                except NoModel:
                    s.pop()
                    continue
                s.pop()
                return val
            s.pop()
        for cand in ('2000-01-01', 'a', 'en', '1', '#000000', 'A1', 'x', ''):
            if cand not in avoid and self.valid_text(cand, upper=False) and self.collapse(cand) == cand:
                return cand
        return None
