"""F1 history harness: one element of a class with element content, a history of child-mutating
operations chosen symbolically (symx) and executed on the real library, children compared by
identity.

op encodings (JSON lists):
  ['ADD', a]  ['ADDF', a, forward]  ['REMOVE', i]  ['REPLACE', i, a]  ['DOTSET', a]  ['DOTVAL', a]
  ['DOTNONE', a]  ['TOSTRING', ic]
  ['SELF', i]     replace_child(c, c): a child replaced by itself (also what e.xml_x = e.xml_x does)
  ['FOREIGN', a]  remove(c) / replace_child(c, new) with c a child of ANOTHER element of the same class
  ['ADDSTALE', a] add_child(c) with c a child that was swapped out of another, checked, element by replace_child
a = element name; i = index into the harness's own list of live children (insertion order,
replacements substituted); i == len(live) addresses a child that is not present.
"""
import collections
import io
import sys
import time
import traceback
import xml.etree.ElementTree as ET
import z3

from . import lib, symx, lang

KINDS = ['ADD', 'ADDF', 'REMOVE', 'REPLACE', 'DOTSET', 'DOTVAL', 'DOTNONE', 'TOSTRING', 'SELF', 'FOREIGN']
EXTRA_KINDS = ['ADDSTALE']      # only used by checks that ask for it (indices continue after KINDS)

DOCUMENTED = ('XMLElement', 'XMLChildContainer', 'XSD')
INTERNAL = ('NotImplementedError', 'IndexError', 'KeyError', 'RecursionError', 'NameError', 'UnboundLocalError',
            'AssertionError', 'ZeroDivisionError', 'StopIteration', 'LookupError', 'RuntimeError', 'SystemError',
            'MemoryError', 'OverflowError', 'UnicodeError', 'UnicodeDecodeError', 'UnicodeEncodeError', 'ImportError',
            'NotADirectoryError', 'OSError')


def exc_info(e):
    """(type name, innermost /repo function it was raised in)"""
    tb = e.__traceback__
    where = '?'
    while tb is not None:
        co = tb.tb_frame.f_code
        if co.co_filename.startswith('/repo/'):
            where = '%s:%s' % (co.co_filename[len('/repo/musicxml/'):], co.co_name)
        tb = tb.tb_next
    return type(e).__name__, where


def classify_exception(e, op_kind):
    """None if the exception is one of the documented rejection types for this kind of call,
    else a failure-kind string (C19)"""
    tn, where = exc_info(e)
    mro = [c.__name__ for c in type(e).__mro__]
    if any(n.startswith(DOCUMENTED) for n in mro[:-2]) and not isinstance(e, (NotImplementedError,)):
        return None
    if tn in ('TypeError', 'ValueError'):
        return None
    if tn == 'AttributeError':
        msg = str(e)
        if op_kind in ('DOTSET', 'DOTVAL', 'DOTNONE', 'ATTR', 'GETATTR') and 'has no attribute' in msg and 'NoneType' not in msg:
            return None
        return 'internal-error:AttributeError@%s' % where
    return 'internal-error:%s@%s' % (tn, where)


class Step:
    __slots__ = ('op', 'ok', 'exc', 'where', 'bad', 'out', 'text', 'msg', 'foreign')

    def __init__(self, op):
        self.op = op
        self.ok = False
        self.exc = None
        self.where = None
        self.bad = None
        self.out = ''
        self.text = None
        self.msg = ''
        self.foreign = None


class World:
    explicit = False        # True: xml_* shortcuts are replaced by the explicit calls they abbreviate (C15)

    def __init__(self, name, xsd_check=True):
        self.name = name
        self.model = lib.content_model(name)
        self.alphabet = self.model.names
        self.e = lib.make(name, xsd_check=xsd_check)
        self.live = []
        self.dead = []
        self.serial = 0
        self.steps = []
        self.made = {}
        self.keep = []

    def mk(self, a):
        self.serial += 1
        try:
            c = lib.make(a, xsd_check=False, serial=self.serial)
        except Exception:
            c = lib.make(a, xsd_check=False, serial=None, with_required=False)
        self.made[id(c)] = (a, self.serial)
        self.keep.append(c)          # ids are only unique while the object is alive
        return c

    def first_named(self, a):
        for c in self.live:
            if self.made[id(c)][0] == a:
                return c
        return None

    def absent(self):
        """a child object that is not (or no longer) a child of e"""
        if self.dead:
            return self.dead[-1]
        a = self.alphabet[0]
        return self.mk(a)

    def apply(self, op):
        st = Step(op)
        self.current = op
        k = op[0]
        e = self.e
        buf = io.StringIO()
        so, se = sys.stdout, sys.stderr
        sys.stdout = sys.stderr = buf
        try:
            if k == 'ADD':
                c = self.mk(op[1])
                e.add_child(c)
                self.live.append(c)
            elif k == 'ADDF':
                c = self.mk(op[1])
                e.add_child(c, forward=op[2])
                self.live.append(c)
            elif k == 'REMOVE':
                c = self.live[op[1]] if op[1] < len(self.live) else self.absent()
                e.remove(c)
                self.live.remove(c)
                self.dead.append(c)
            elif k == 'REPLACE':
                old = self.live[op[1]] if op[1] < len(self.live) else self.absent()
                c = self.mk(op[2])
                e.replace_child(old, c)
                i = self.live.index(old)
                self.live[i] = c
                self.dead.append(old)
            elif k == 'DOTSET':
                c = self.mk(op[1])
                found = self.first_named(op[1])
                if self.explicit:
                    old = e.find_child(lib.class_name(op[1]))
                    if old is not None:
                        e.replace_child(old, c)
                    else:
                        e.add_child(c)
                else:
                    setattr(e, lib.dot_name(op[1]), c)
                if found is not None:
                    self.live[self.live.index(found)] = c
                    self.dead.append(found)
                else:
                    self.live.append(c)
            elif k == 'DOTVAL':
                v = (lib.alt_value(op[1]) if lib.alt_value(op[1]) is not None else lib.valid_value(op[1])) if len(op) < 3 else op[2]
                found = self.first_named(op[1])
                if self.explicit:
                    old = e.find_child(lib.class_name(op[1]))
                    if old is not None:
                        old.value_ = v
                    else:
                        e.add_child(lib.cls_of(op[1])(v))
                else:
                    setattr(e, lib.dot_name(op[1]), v)
                if found is None:
                    # the library created the child itself: adopt it
                    new = [c for c in e.get_children(ordered=False) if id(c) not in self.made]
                    for c in new:
                        self.serial += 1
                        self.made[id(c)] = (op[1], self.serial)
                        self.live.append(c)
            elif k == 'DOTNONE':
                found = self.first_named(op[1])
                if self.explicit:
                    old = e.find_child(lib.class_name(op[1]))
                    if old is not None:
                        e.remove(old)
                else:
                    setattr(e, lib.dot_name(op[1]), None)
                if found is not None:
                    self.live.remove(found)
                    self.dead.append(found)
            elif k == 'TOSTRING':
                st.text = e.to_string(intelligent_choice=bool(op[1]))
            elif k == 'ADDSTALE':
                other = lib.make(self.name)
                c = self.mk(op[1])
                other.add_child(c)
                repl = self.mk(op[1])
                self.made.pop(id(repl), None)
                other.replace_child(c, repl)
                e.add_child(c)
                self.live.append(c)
            elif k == 'SELF':
                c = self.live[op[1]] if op[1] < len(self.live) else self.absent()
                e.replace_child(c, c)
            elif k == 'FOREIGN':
                other = lib.make(self.name)
                oc = self.mk(op[1])
                self.made.pop(id(oc), None)
                other.add_child(oc)
                before = ([id(x) for x in other.get_children(ordered=True)], [id(x) for x in other.get_children(ordered=False)])
                try:
                    e.remove(oc)
                finally:
                    after = ([id(x) for x in other.get_children(ordered=True)], [id(x) for x in other.get_children(ordered=False)])
                    if before != after or oc.get_parent() is not other:
                        st.foreign = 'the other element lost or orphaned its child'
            else:
                raise RuntimeError('bad op %r' % (op,))
            st.ok = True
        except symx.PathTimeout:
            raise
        except Exception as ex:
            st.exc, st.where = exc_info(ex)
            st.bad = classify_exception(ex, k)
            st.msg = str(ex)[:200]
        finally:
            sys.stdout, sys.stderr = so, se
        st.out = buf.getvalue()
        self.steps.append(st)
        return st

    # ---- observations
    def names(self, children):
        return [self.made.get(id(c), (getattr(c, 'name', '?'), 0))[0] for c in children]

    def ids(self, children):
        return [self.made.get(id(c), ('?', -id(c)))[1] for c in children]


def run_ops(name, ops, xsd_check=True, after=None):
    w = World(name, xsd_check=xsd_check)
    for op in ops:
        st = w.apply(list(op))
        if after:
            after(w, st)
    return w


def out_children(text):
    """tag sequence of the root's children in serialised text"""
    root = ET.fromstring(text)
    return [c.tag for c in root]


def snapshot(w, ic=False):
    """observable state of the element (serialisation or the verdict why not); calls to_string"""
    e = w.e
    d = dict(ordered=w.ids(e.get_children(ordered=True)), unordered=w.ids(e.get_children(ordered=False)),
             attributes=dict(e.attributes), value=repr(e.value_))
    buf = io.StringIO()
    so, se = sys.stdout, sys.stderr
    sys.stdout = sys.stderr = buf
    try:
        d['text'] = e.to_string(intelligent_choice=ic)
    except symx.PathTimeout:
        raise
    except Exception as ex:
        d['text'] = None
        d['exc'] = type(ex).__name__
        d['missing'] = _missing(str(ex))
    finally:
        sys.stdout, sys.stderr = so, se
    return d


def _missing(msg):
    import re
    return sorted(set(re.findall(r'XML[A-Za-z0-9]+', msg.split('children:')[-1]))) if 'children:' in msg else msg[:80]


def acceptance(name, ops, alphabet, xsd_check=True, forwards=(None,)):
    """which next child would be accepted after `ops` (re-executed from scratch per probe)"""
    out = {}
    for a in alphabet:
        for f in forwards:
            w = run_ops(name, ops, xsd_check)
            st = w.apply(['ADD', a] if f is None else ['ADDF', a, f])
            out['%s/%s' % (a, f)] = 'ok' if st.ok else st.exc
    return out


# ------------------------------------------------------------------ alphabets / symmetry reduction
def interchangeable_groups(p):
    """sets of leaf names that are sibling leaves of one choice with identical bounds and occur once in the type"""
    cnt = collections.Counter()

    def count(q):
        if q[0] == 'el':
            cnt[q[1]] += 1
        else:
            for c in q[1]:
                count(c)
    count(p)
    groups = []

    def rec(q):
        if q[0] == 'el':
            return
        if q[0] == 'cho':
            by = collections.defaultdict(list)
            for c in q[1]:
                if c[0] == 'el' and cnt[c[1]] == 1:
                    by[(c[2], c[3])].append(c[1])
            for g in by.values():
                if len(g) > 3:
                    groups.append(g)
        for c in q[1]:
            rec(c)
    rec(p)
    return groups


def reduced_alphabet(name):
    m = lib.content_model(name)
    drop = set()
    for g in interchangeable_groups(m.p):
        drop |= set(g[2:-1])          # keep first, second, last
    return [a for a in m.names if a not in drop]


# ------------------------------------------------------------------ symbolic op picking
class Picker:
    """chooses the j-th operation through the engine (all operands are solver decisions)"""

    def __init__(self, eng, alphabet, kinds, fwd=(-1, 2), maxpos=3, simple=None):
        self.eng = eng
        self.A = alphabet
        self.kinds = kinds
        self.kidx = sorted((KINDS + EXTRA_KINDS).index(x) for x in kinds)
        self.fwd = fwd
        self.maxpos = maxpos
        self.simple = simple or set()
        self.sidx = [i for i, a in enumerate(alphabet) if a in self.simple]

    @staticmethod
    def _among(v, idxs):
        lo, hi = idxs[0], idxs[-1]
        cs = [v >= lo, v <= hi]
        present = set(idxs)
        cs += [v != i for i in range(lo, hi + 1) if i not in present]
        return cs

    def pick(self, w, j):
        eng = self.eng
        kind = (KINDS + EXTRA_KINDS)[eng.choose('kind%d' % j, lambda: (z3.Int('k%d' % j), self._among(z3.Int('k%d' % j), self.kidx)))]
        if kind in ('ADD', 'ADDF', 'REPLACE', 'DOTSET', 'DOTVAL', 'DOTNONE', 'FOREIGN', 'ADDSTALE'):
            idxs = self.sidx if kind == 'DOTVAL' else list(range(len(self.A)))
            if not idxs:
                raise symx.Abort()
            sym = self.A[eng.choose('sym%d' % j, lambda: (z3.Int('a%d' % j), self._among(z3.Int('a%d' % j), idxs)))]
        if kind == 'ADD':
            return ['ADD', sym]
        if kind == 'ADDF':
            f = eng.choose('fwd%d' % j, lambda: (z3.Int('f%d' % j), [z3.Int('f%d' % j) >= self.fwd[0], z3.Int('f%d' % j) <= self.fwd[1]]))
            return ['ADDF', sym, f]
        if kind in ('REMOVE', 'REPLACE', 'SELF'):
            hi = min(len(w.live), self.maxpos)
            pos = eng.choose('pos%d' % j, lambda: (z3.Int('p%d' % j), [z3.Int('p%d' % j) >= 0, z3.Int('p%d' % j) <= hi]))
            return [kind, pos] if kind != 'REPLACE' else ['REPLACE', pos, sym]
        if kind in ('FOREIGN', 'ADDSTALE'):
            return [kind, sym]
        if kind in ('DOTSET', 'DOTVAL', 'DOTNONE'):
            return [kind, sym]
        if kind == 'TOSTRING':
            b = eng.choose('ic%d' % j, lambda: (z3.Int('ic%d' % j), [z3.Int('ic%d' % j) >= 0, z3.Int('ic%d' % j) <= 1]))
            return ['TOSTRING', b]
        raise RuntimeError(kind)


def simple_names(alphabet):
    return {a for a in alphabet if lib.valid_value(a) is not None}


def explore(name, K, budget, kinds, judge, alphabet=None, fwd=(-1, 2), maxpos=3, final_ic=None, per_step=None,
            xsd_check=True, trace_funcs=True, stop_on_fail=False):
    """iterative deepening over history length 1..K within a path budget.  A level that does not fit
    in the remaining budget is explored stratified: every first operation gets an equal share
    (depth-first below it).
    judge(world) -> list of (kind, detail) evaluated at the end of each path;
    per_step(world, step) -> optional list of (kind, detail) after every operation.
    returns dict(stats, cands, samples, funcs, nontrivial, evaluations, bounds)"""
    A = alphabet or reduced_alphabet(name)
    simple = simple_names(A)
    for a in A:                      # solver-chosen values/attributes are computed outside the per-path timer
        try:
            lib.make(a, xsd_check=False, serial=1)
        except Exception:
            pass
    try:
        lib.make(name)
    except Exception:
        pass
    stats = collections.Counter()
    cands = []
    samples = []
    funcs = set()
    state = dict(seen=0, first=trace_funcs)
    used = 0
    truncated = False
    kmax_done = 0
    first_ops = []
    level_sizes = []

    def run_level(k, prefix, max_paths):
        eng = symx.Engine()
        symx.ENGINE = eng

        def harness(eng):
            w = World(name, xsd_check=xsd_check)
            state['w'] = w
            picker = Picker(eng, A, kinds, fwd, maxpos, simple)
            found = []
            for op in prefix:
                st = w.apply(list(op))
                if per_step:
                    found.extend(per_step(w, st) or [])
            for j in range(len(prefix), k):
                op = picker.pick(w, j)
                st = w.apply(op)
                if per_step:
                    found.extend(per_step(w, st) or [])
                if stop_on_fail and not st.ok:
                    break
            if final_ic is not None:
                w.final_ic = bool(eng.choose('final_ic', lambda: (z3.Int('final_ic'), [z3.Int('final_ic') >= min(final_ic), z3.Int('final_ic') <= max(final_ic)])))
            found.extend(judge(w) or [])
            return w, found
        n = 0
        for decisions, res in eng.explore(harness, max_paths=max_paths):
            n += 1
            if res == ('TIMEOUT',):
                w = state['w']
                ops = [s.op for s in w.steps] + [getattr(w, 'current', None)]
                cands.append(dict(cls=name, kind='hang', witness=dict(ops=ops), detail='path exceeded %.1fs' % eng.path_timeout_s))
                continue
            w, found = res
            ops = [s.op for s in w.steps[:k]]
            if k == 1 and ops:
                if not first_ops or first_ops[-1] != ops[0]:
                    first_ops.append(ops[0])
            if state['first']:
                state['first'] = False
                with symx.FuncTrace() as ft:
                    try:
                        run_ops(name, ops, xsd_check)
                    except BaseException:
                        pass
                funcs.update(ft.funcs)
            state['seen'] += 1
            if getattr(w, 'nontrivial', True):
                state['nontriv'] = state.get('nontriv', 0) + 1
            if getattr(w, 'skipped', False):
                stats['skipped_no_twin'] += 1
            for kind, detail in found:
                wit = dict(ops=ops)
                if final_ic is not None:
                    wit['ic'] = bool(getattr(w, 'final_ic', False))
                cands.append(dict(cls=name, kind=kind, witness=wit, detail=str(detail)[:300]))
            if len(samples) < 2 and k == K:
                samples.append(dict(cls=name, ops=ops, outcomes=[('ok' if s.ok else s.exc) for s in w.steps[:k]],
                                    path_condition=[list(map(str, d)) for d in decisions][:12]))
        for kk, v in eng.stats.items():
            stats[kk] += v
        return n, eng.truncated

    for k in range(1, K + 1):
        remaining = budget - used
        if remaining <= 0:
            truncated = True
            break
        est = (level_sizes[-1] * max(1, level_sizes[0] // (2 if final_ic else 1))) if level_sizes else 0
        if k == 1 or est <= remaining:
            n, tr = run_level(k, [], remaining)
            used += n
            if tr:
                truncated = True
                break
            level_sizes.append(n)
            kmax_done = k
        else:
            truncated = True
            share = max(2, remaining // max(1, len(first_ops)))
            for op in first_ops:
                if budget - used <= 0:
                    break
                n, tr = run_level(k, [op], min(share, budget - used))
                used += n
            break
    if truncated:
        stats['truncated_units'] += 1
    return dict(stats=stats, cands=cands, samples=samples, funcs=sorted(funcs), nontrivial=state.get('nontriv', 0), evaluations=state['seen'],
                bounds=dict(K=K, complete_up_to=kmax_done, alphabet=len(A), full_alphabet=len(lib.content_model(name).names),
                            budget=budget, used=used, kinds=kinds, forward=list(fwd), truncated=truncated,
                            truncation='stratified by first operation' if truncated else None))


import re as _re
_SERIAL = _re.compile(r"'c\d+'")
SKIP_FIELDS = {'_et_xml_element', '_xsd_tree', 'xsd_tree', 'XSD_TREE', '_XSD_TREE', '_kwargs', '_traversed', '_iterated_leaves',
               '_reversed_path_to_root', '_lite', 'keep', 'made'}


def fingerprint(w):
    """structural hash of everything reachable from the element that operations can change (container tree with
    all flags, leaf contents, insertion-ordered list, back-references), children named by their position in the
    harness's live list.  Two histories with equal fingerprints continue identically: only one is extended."""
    import hashlib
    e = w.e
    X = lib.X().XMLElement
    live = {id(c): i for i, c in enumerate(w.live)}
    dead = {id(c): i for i, c in enumerate(w.dead)}
    memo = {}
    out = []

    def enc(o, d):
        if o is None or isinstance(o, (bool, int, float, str)):
            out.append(repr(o))
            return
        i = id(o)
        if i in live and d > 0:
            c = o
            out.append(_SERIAL.sub('c#', 'child%d<%s,%r,%r>' % (live[i], c.name, c._value, sorted(c._attributes.items()))))
            enc(getattr(c, 'parent_xsd_element', None), d + 1)
            return
        if i in dead and d > 0:
            out.append('dead%s' % ('-last' if o is w.dead[-1] else ''))
            if o is w.dead[-1]:
                enc(getattr(o, 'parent_xsd_element', None), d + 1)
            return
        if isinstance(o, X) and o is not e:
            out.append('foreign-element')
            return
        if i in memo:
            out.append('ref%d' % memo[i])
            return
        memo[i] = len(memo)
        if isinstance(o, (list, tuple)):
            out.append('[')
            for x in o:
                enc(x, d + 1)
                out.append(',')
            out.append(']')
        elif isinstance(o, dict):
            out.append('{')
            for k in sorted(o, key=repr):
                out.append(repr(k) + ':')
                enc(o[k], d + 1)
            out.append('}')
        elif isinstance(o, (set, frozenset)):
            out.append('set' + repr(sorted(map(repr, o))))
        elif hasattr(o, '__dict__') and type(o).__module__.split('.')[0] in ('musicxml', 'verysimpletree'):
            out.append(type(o).__name__ + '(')
            for k, v in sorted(vars(o).items()):
                if k in SKIP_FIELDS:
                    continue
                out.append(k + '=')
                enc(v, d + 1)
                out.append(';')
            out.append(')')
        else:
            out.append('<' + type(o).__name__ + '>')
    enc(e, 0)
    if w.dead:
        out.append('|lastdead:')
        enc(getattr(w.dead[-1], 'parent_xsd_element', None), 1)
    return hashlib.sha1(''.join(out).encode('utf-8', 'replace')).hexdigest()


def explore_states(name, D, budget, kinds_by_depth, judge, alphabet=None, fwd=(-1, 2), maxpos=3, final_ic=None, per_step=None,
                   xsd_check=True, trace_funcs=True, stop_on_fail=False, prefixes=None, pre_step=None):
    """breadth-first exploration of the element's reachable states: every state reached within D operations (states
    with equal structural fingerprints are merged) is expanded by every operation, the operands being solver decisions.
    judge(world) at the end of each path; per_step(world, step) after every operation.
    kinds_by_depth: function depth -> list of operation kinds."""
    A = alphabet or reduced_alphabet(name)
    simple = simple_names(A)
    for a in A:
        try:
            lib.make(a, xsd_check=False, serial=1)
            lib.alt_value(a)
        except Exception:
            pass
    try:
        lib.make(name)
    except Exception:
        pass
    stats = collections.Counter()
    cands, samples, funcs = [], [], set()
    state = dict(seen=0, nontriv=0, first=trace_funcs)
    w0 = World(name, xsd_check=xsd_check)
    seen = {fingerprint(w0)}
    frontier = [list(p) for p in prefixes] if prefixes else [[]]
    for p in prefixes or []:
        try:
            seen.add(fingerprint(run_ops(name, p, xsd_check)))
        except Exception:
            pass
    used = 0
    truncated = False
    depth_done = 0
    states_expanded = 0

    def expand(prefix, depth, max_paths):
        eng = symx.Engine()
        symx.ENGINE = eng
        kinds = kinds_by_depth(depth)

        def harness(eng):
            w = World(name, xsd_check=xsd_check)
            state['w'] = w
            found = []
            for op in prefix:
                w.apply(list(op))
            picker = Picker(eng, A, kinds, fwd, maxpos, simple)
            if pre_step:
                pre_step(w)
            op = picker.pick(w, len(prefix))
            st = w.apply(op)
            if per_step:
                found.extend(per_step(w, st) or [])
            w.fp = fingerprint(w)
            if final_ic is not None:
                w.final_ic = bool(eng.choose('final_ic', lambda: (z3.Int('final_ic'), [z3.Int('final_ic') >= min(final_ic), z3.Int('final_ic') <= max(final_ic)])))
            found.extend(judge(w) or [])
            return w, found
        n = 0
        new = []
        for decisions, res in eng.explore(harness, max_paths=max_paths):
            n += 1
            if res == ('TIMEOUT',):
                w = state['w']
                ops = [s.op for s in w.steps] + [getattr(w, 'current', None)]
                cands.append(dict(cls=name, kind='hang', witness=dict(ops=ops), detail='path exceeded %.1fs' % eng.path_timeout_s))
                continue
            w, found = res
            ops = [s.op for s in w.steps[:len(prefix) + 1]]
            if state['first']:
                state['first'] = False
                with symx.FuncTrace() as ft:
                    try:
                        run_ops(name, ops, xsd_check)
                    except BaseException:
                        pass
                funcs.update(ft.funcs)
            state['seen'] += 1
            if getattr(w, 'nontrivial', True):
                state['nontriv'] += 1
            if getattr(w, 'skipped', False):
                stats['skipped_no_twin'] += 1
            for kind, detail in found:
                wit = dict(ops=ops)
                if final_ic is not None:
                    wit['ic'] = bool(getattr(w, 'final_ic', False))
                cands.append(dict(cls=name, kind=kind, witness=wit, detail=str(detail)[:300]))
            if w.fp not in seen and not (stop_on_fail and not w.steps[len(prefix)].ok):
                seen.add(w.fp)
                new.append(ops)
            if len(samples) < 2 and depth >= 2:
                samples.append(dict(cls=name, ops=ops, outcomes=[('ok' if s.ok else s.exc) for s in w.steps[:len(ops)]],
                                    path_condition=[list(map(str, d)) for d in decisions][:12]))
        for kk, v in eng.stats.items():
            stats[kk] += v
        return n, new, eng.truncated

    for depth in range(1, D + 1):
        nxt = []
        for prefix in frontier:
            if used >= budget:
                truncated = True
                break
            n, new, tr = expand(prefix, depth if not prefixes else max(depth, 3), budget - used)
            used += n
            states_expanded += 1
            nxt.extend(new)
            if tr:
                truncated = True
                break
        if truncated:
            break
        depth_done = depth
        frontier = nxt
        if not frontier:
            break
    if truncated:
        stats['truncated_units'] += 1
    stats['states'] += len(seen)
    stats['states_expanded'] += states_expanded
    return dict(stats=stats, cands=cands, samples=samples, funcs=sorted(funcs), nontrivial=state['nontriv'], evaluations=state['seen'],
                bounds=dict(depth=D, complete_up_to_depth=depth_done, alphabet=len(A), full_alphabet=len(lib.content_model(name).names),
                            budget=budget, used=used, distinct_states=len(seen), states_expanded=states_expanded,
                            forward=list(fwd), truncated=truncated, all_states_within_depth=(not truncated)))


def _ops_from_decisions(decisions):
    return [list(map(str, d)) for d in decisions]


def hangs(name, ops, xsd_check=True, limit=30.0):
    """does executing ops on the real code exceed the time limit?"""
    import signal

    def h(s, f):
        raise symx.PathTimeout()
    old = signal.signal(signal.SIGALRM, h)
    signal.setitimer(signal.ITIMER_REAL, limit)
    try:
        w = run_ops(name, [o for o in ops if o], xsd_check)
        for ic in (0, 1):
            w.apply(['TOSTRING', ic])
        return False
    except symx.PathTimeout:
        return True
    finally:
        signal.setitimer(signal.ITIMER_REAL, 0)
        signal.signal(signal.SIGALRM, old)


def reduce_ops(name, cand, judge_concrete):
    """greedy one-at-a-time deletion while the same failure kind persists (deterministic)"""
    if cand['kind'] == 'hang':
        return cand
    ops = list(cand['witness']['ops'])
    extra = {k: v for k, v in cand['witness'].items() if k != 'ops'}
    kind = cand['kind']
    changed = True
    while changed:
        changed = False
        for i in range(len(ops)):
            trial = ops[:i] + ops[i + 1:]
            # indices of REMOVE/REPLACE refer to the live list; deleting an op may shift them: just try
            try:
                kinds = [k for k, _ in judge_concrete(name, trial, extra)]
            except BaseException:
                kinds = []
            if kind in kinds:
                ops = trial
                changed = True
                break
    return dict(cand, witness=dict(extra, ops=ops))
