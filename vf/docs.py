"""F4 document harness: small documents whose shape comes from the pinned reference model
(child words from the solver-checked word sets, values from z3 models of the lexical spaces),
built either through the library's API or as XML text written by this module alone."""
import collections
import io
import os
import re
import tempfile
import xml.etree.ElementTree as ET
from decimal import Decimal, InvalidOperation
from fractions import Fraction
import z3

from . import lib, lang, lex, refmodel, rx, words

XMLNS = 'http://www.w3.org/XML/1998/namespace'
XLINK = 'http://www.w3.org/1999/xlink'

# ------------------------------------------------------------------ specs
# spec = dict(name, attrs={schema attr name: python value}, value=python value or None, children=[spec])


_MIN = {}


def minimal_word(name):
    m = lib.content_model(name)
    if m is None:
        return ()
    ws, complete, _ = words.by_length(m, m.names, 6, 1)
    if not ws:
        # shortest word may be longer than 6 or the limit cut it: search by NFA breadth-first
        d = m.nfa()
        frontier = [((), d.start)]
        for _ in range(12):
            nxt = []
            for w, S in frontier:
                if d.final in S:
                    return w
                for a in m.names:
                    T = d.step(S, a)
                    if T:
                        nxt.append((w + (a,), T))
            frontier = nxt[:2000]
        raise RuntimeError('no short word for ' + name)
    return ws[0]


def minimal(name, depth=0):
    """minimal schema-valid subtree for an element name (memoised)"""
    if name in _MIN:
        return _copy(_MIN[name])
    if depth > 12:
        raise RuntimeError('minimal document recursion too deep at ' + name)
    spec = dict(name=name, attrs=dict(lib.required_attrs(name)), value=lib.valid_value(name), children=[])
    for a in minimal_word(name):
        spec['children'].append(minimal(a, depth + 1))
    _MIN[name] = spec
    return _copy(spec)


def _copy(s):
    return dict(name=s['name'], attrs=dict(s['attrs']), value=s['value'], children=[_copy(c) for c in s['children']])


def with_word(name, word):
    spec = dict(name=name, attrs=dict(lib.required_attrs(name)), value=lib.valid_value(name), children=[minimal(a) for a in word])
    return spec


# ------------------------------------------------------------------ representative values (solver-chosen)
_REP = {}


def representatives(T, limit=10):
    """python values valid for resolved simple type T: z3 models at every bound, one interior point, enumeration literals,
    pattern models of several lengths"""
    import json
    key = json.dumps(T, sort_keys=True) + str(limit)
    if key in _REP:
        return _REP[key]
    L = lex.Lex(T)
    out = []

    def add(v):
        if v is not None and v not in out:
            out.append(v)
    if L.kind == 'union':
        for m in T['members']:
            for v in representatives(m, 4):
                add(v)
    elif L.kind in ('decimal', 'integer'):
        n = z3.Int('n')
        ok = L.int_ok(n, False)
        for extra in ([], [n <= -1], [n >= 2], [n == 0]):
            s = z3.Optimize()
            s.add(ok, *extra)
            for goal in (s.minimize, s.maximize):
                s.push()
                # clamp so that unbounded directions stay small
                s.add(n >= -10 ** 6, n <= 10 ** 6)
                goal(n)
                if str(s.check()) == 'sat':
                    add(s.model().eval(n, model_completion=True).as_long())
                s.pop()
        if L.kind == 'decimal':
            for cand in (0.5, -0.5, 2.25, 1e-05, 123456.75, -99.125, 1e16):
                if L.valid_text(render_value(cand), False):
                    add(cand)
    else:
        if T.get('enums'):
            for lit in T['enums'][:limit]:
                add(lit)
        else:
            # strings with interior whitespace / markup / non-ASCII where the type allows them
            for cand in ('a  b', ' a ', 'x\ny', 'a&b<c>"d\'', 'p\tq', '\u00e9t\u00e9', '1', 'a b'):
                # only strings that are already in the whitespace-normalised form of the type (the property speaks of that form)
                if L.collapse(cand) == cand and L.valid_text(cand, False):
                    add(cand)
            if T.get('patterns') or T['kind'] == 'date':
                for cand in lex.FIXED_CANDIDATES:
                    if L.valid_text(cand, False) and L.collapse(cand) == cand:
                        add(cand)
            v = z3.String('v')
            plain = z3.Plus(rx.cls([c for c in rx.SIGMA if c.isascii() and (c.isalnum() or c in '#.-:')]))
            for ln in (1, 2, 3, 6, None):
                if out and (T.get('patterns') or T['kind'] == 'date'):
                    break          # representatives from the fixed candidates: no (slow, timeout-prone) pattern solving
                s = z3.Solver()
                s.set('timeout', 60000)
                s.add(L.str_ok(v, False), z3.InRe(v, z3.Intersect(lex.normalised_re(L.ws), plain)))
                if ln is not None:
                    s.add(z3.Length(v) == ln)
                else:
                    s.add(z3.Length(v) >= 7, z3.Length(v) <= 12)
                if str(s.check()) == 'sat':
                    try:
                        add(lex.canonical_str(s, v))
                    except lex.NoModel:
                        pass
            add(lib.sample_for(T))
    _REP[key] = out[:limit]
    return _REP[key]


# ------------------------------------------------------------------ construction through the library's API
class BuildError(Exception):
    pass


def py_attr(name):
    return name.split(':')[-1].replace('-', '_')


def build_api(spec, xsd_check=True):
    cls = lib.cls_of(spec['name'])
    kw = {py_attr(k): v for k, v in spec['attrs'].items()}
    if spec['value'] is None:
        e = cls(xsd_check=xsd_check, **kw)
    else:
        e = cls(spec['value'], xsd_check=xsd_check, **kw)
    for c in spec['children']:
        e.add_child(build_api(c, xsd_check))
    return e


# ------------------------------------------------------------------ construction as XML text, independent of the library
def render_value(v):
    if isinstance(v, float):
        t = repr(v)
        if 'e' in t or 'E' in t:
            t = format(Decimal(t), 'f')
        return t
    return str(v)


def to_et(spec):
    attrs = {}
    for k, v in spec['attrs'].items():
        if k.startswith('xml:'):
            attrs['{%s}%s' % (XMLNS, k[4:])] = render_value(v)
        elif k.startswith('xlink:'):
            attrs['{%s}%s' % (XLINK, k[6:])] = render_value(v)
        else:
            attrs[k] = render_value(v)
    el = ET.Element(spec['name'], attrs)
    if spec['value'] is not None and render_value(spec['value']) != '':
        el.text = render_value(spec['value'])
    for c in spec['children']:
        el.append(to_et(c))
    return el


def to_xml(spec):
    ET.register_namespace('xlink', XLINK)
    root = to_et(spec)
    ET.indent(root, space='  ')
    return '<?xml version="1.0" encoding="UTF-8" standalone="no"?>\n' + ET.tostring(root, encoding='unicode') + '\n'


# ------------------------------------------------------------------ infoset comparison
def is_decimal(T):
    if T is None:
        return False
    if T['kind'] == 'union':
        return any(is_decimal(m) for m in T['members'])
    return T['kind'] in ('decimal', 'integer')


def elem_type(name):
    try:
        return lib.type_of(name)[2]
    except KeyError:
        return None


def attr_types(name):
    try:
        tn, c, _ = lib.type_of(name)
    except KeyError:
        return {}
    out = {}
    if c:
        for a in c['attrs']:
            out[a['name']] = refmodel.attr_type(lib.MODEL, a)
    return out


def same_text(a, b, T, exact=False):
    if exact and T is not None and T.get('kind') == 'string' and T.get('ws') == 'preserve':
        return (a or '') == (b or '')          # attribute of a whitespace-preserving type: every character counts
    a = (a or '').strip()
    b = (b or '').strip()
    if a == b:
        return True
    if is_decimal(T):
        try:
            return Decimal(a) == Decimal(b)
        except InvalidOperation:
            return False
    return False


def qname(k):
    if k.startswith('{' + XMLNS + '}'):
        return 'xml:' + k[len(XMLNS) + 2:]
    if k.startswith('{' + XLINK + '}'):
        return 'xlink:' + k[len(XLINK) + 2:]
    return k


def diff_infoset(a, b, path=''):
    """first difference between two ET elements (None if equal up to decimal spelling of decimal-typed values)"""
    here = '%s/%s' % (path, a.tag)
    if a.tag != b.tag:
        return '%s: tag %s vs %s' % (here, a.tag, b.tag)
    at = attr_types(a.tag)
    ka = {qname(k): v for k, v in a.attrib.items()}
    kb = {qname(k): v for k, v in b.attrib.items()}
    if set(ka) != set(kb):
        return '%s: attributes %s vs %s' % (here, sorted(ka), sorted(kb))
    for k in ka:
        if not same_text(ka[k], kb[k], at.get(k), exact=True):
            return '%s/@%s: %r vs %r' % (here, k, ka[k], kb[k])
    if not same_text(a.text, b.text, elem_type(a.tag)):
        return '%s: text %r vs %r' % (here, a.text, b.text)
    if (a.tail or '').strip() != (b.tail or '').strip():
        return '%s: tail %r vs %r' % (here, a.tail, b.tail)
    ca, cb = list(a), list(b)
    if [c.tag for c in ca] != [c.tag for c in cb]:
        return '%s: children %s vs %s' % (here, [c.tag for c in ca], [c.tag for c in cb])
    for x, y in zip(ca, cb):
        d = diff_infoset(x, y, here)
        if d:
            return d
    return None


def parse_file(text):
    """write text to a temporary file and read it with the library's parse_musicxml"""
    from musicxml.parser.parser import parse_musicxml
    fd, path = tempfile.mkstemp(suffix='.xml', dir=os.environ.get('VERIF_TMP', '/var/tmp'))
    try:
        with os.fdopen(fd, 'w', encoding='utf-8') as f:
            f.write(text)
        with lib.Capture():
            return parse_musicxml(path)
    finally:
        os.unlink(path)


def numeric_types_ok(e, path=''):
    """after parsing: integer-typed content must be int, decimal-typed a number; returns first problem or None"""
    T = elem_type(e.name)
    v = e.value_
    here = path + '/' + e.name
    if T is not None and T['kind'] == 'integer' and v is not None and v != '':
        if type(v) is not int:
            return '%s: integer-typed content parsed as %s (%r)' % (here, type(v).__name__, v)
    at = attr_types(e.name)
    for k, val in e.attributes.items():
        t = at.get(k) or at.get('xml:' + k)
        if t is not None and t['kind'] == 'integer' and type(val) is not int:
            return '%s/@%s: integer-typed attribute parsed as %s (%r)' % (here, k, type(val).__name__, val)
    for c in e.get_children():
        p = numeric_types_ok(c, here)
        if p:
            return p
    return None
