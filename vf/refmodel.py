"""Independent reader of MusicXML 4.0 XSD (+ xml.xsd fragments) -> plain JSON reference model.

Own code, xml.etree only; does not import anything from /repo.  The pinned model
(/verif/ref/musicxml40.model.json) was generated ONCE from the pristine schema with
`python -m vf.refmodel --pin`; all oracles read the pinned file.  `derive(path)` re-derives a
model from any schema file (used by C03 item 6 to compare /repo's current copy structurally).
"""
import json
import os
import sys
import xml.etree.ElementTree as ET

XS = '{http://www.w3.org/2001/XMLSchema}'
HERE = os.path.dirname(os.path.abspath(__file__))
PIN = os.path.join(os.path.dirname(HERE), 'ref', 'musicxml40.model.json')

# XML Schema part 2 built-ins used by MusicXML 4.0.  kind = primitive value space the oracle
# reasons in; ws = whiteSpace facet.  Patterns are XSD regexes (xml.xsd of the W3C, not /repo's).
BUILTINS = {
    'xs:string': dict(kind='string', ws='preserve', base=None),
    'xs:normalizedString': dict(kind='string', ws='replace', base='xs:string'),
    'xs:token': dict(kind='string', ws='collapse', base='xs:normalizedString'),
    'xs:NMTOKEN': dict(kind='string', ws='collapse', base='xs:token', patterns=[['\\c+']]),
    'xs:Name': dict(kind='string', ws='collapse', base='xs:token', patterns=[['\\i\\c*']]),
    'xs:NCName': dict(kind='string', ws='collapse', base='xs:Name', patterns=[['[\\i-[:]][\\c-[:]]*']]),
    'xs:ID': dict(kind='string', ws='collapse', base='xs:NCName'),
    'xs:IDREF': dict(kind='string', ws='collapse', base='xs:NCName'),
    'xs:language': dict(kind='string', ws='collapse', base='xs:token',
                        patterns=[['[a-zA-Z]{1,8}(-[a-zA-Z0-9]{1,8})*']]),
    'xs:anyURI': dict(kind='string', ws='collapse', base=None),
    'xs:decimal': dict(kind='decimal', ws='collapse', base=None),
    'xs:integer': dict(kind='integer', ws='collapse', base='xs:decimal'),
    'xs:nonNegativeInteger': dict(kind='integer', ws='collapse', base='xs:integer', minInclusive='0'),
    'xs:positiveInteger': dict(kind='integer', ws='collapse', base='xs:nonNegativeInteger', minInclusive='1'),
    'xs:date': dict(kind='date', ws='collapse', base=None),
}


def _tag(n):
    return n.tag[len(XS):] if n.tag.startswith(XS) else n.tag


class Reader:
    def __init__(self, path):
        self.root = ET.parse(path).getroot()
        self.groups = {g.get('name'): g for g in self.root.findall(XS + 'group')}
        self.ctypes = {g.get('name'): g for g in self.root.findall(XS + 'complexType')}
        self.stypes = {g.get('name'): g for g in self.root.findall(XS + 'simpleType')}
        self.agroups = {g.get('name'): g for g in self.root.findall(XS + 'attributeGroup')}
        self.anon = {}          # synthetic type name -> complexType node
        self.elements = {}      # element name -> type name

    # ---- particles
    @staticmethod
    def occ(n):
        mi = int(n.get('minOccurs', '1'))
        ma = n.get('maxOccurs', '1')
        return mi, (None if ma == 'unbounded' else int(ma))

    def particle(self, n, owner):
        t = _tag(n)
        mi, ma = self.occ(n)
        if t == 'element':
            name = n.get('name') or n.get('ref')
            self._declare(n, owner)
            return ['el', name, mi, ma]
        if t in ('sequence', 'choice'):
            kids = [self.particle(c, owner) for c in n if _tag(c) in ('element', 'sequence', 'choice', 'group')]
            return ['seq' if t == 'sequence' else 'cho', kids, mi, ma]
        if t == 'group':
            g = self.groups[n.get('ref')]
            inner = [c for c in g if _tag(c) in ('sequence', 'choice')][0]
            return ['seq', [self.particle(inner, owner)], mi, ma]
        raise ValueError(t)

    def _declare(self, el, owner):
        name = el.get('name')
        if name is None:
            return
        typ = el.get('type')
        if typ is None:
            ct = el.find(XS + 'complexType')
            if ct is None:
                raise ValueError('element without type: %s' % name)
            typ = '#anon:' + name
            if typ not in self.anon:
                self.anon[typ] = ct
        prev = self.elements.get(name)
        if prev is not None and prev != typ:
            raise ValueError('element %s declared with two types %s %s' % (name, prev, typ))
        self.elements[name] = typ

    def content(self, ct, owner):
        for c in ct:
            t = _tag(c)
            if t in ('sequence', 'choice', 'group'):
                return self.particle(c, owner)
            if t == 'complexContent':
                ext = c[0]
                base = self.ctypes[ext.get('base')]
                bp = self.content(base, owner)
                own = [self.particle(x, owner) for x in ext if _tag(x) in ('sequence', 'choice', 'group')]
                parts = ([bp] if bp else []) + own
                if not parts:
                    return None
                return parts[0] if len(parts) == 1 else ['seq', parts, 1, 1]
        return None

    # ---- attributes
    def attrs_of(self, node):
        out = []
        for c in node:
            t = _tag(c)
            if t == 'attribute':
                name = c.get('name') or c.get('ref')
                typ = c.get('type')
                inline = None
                if typ is None and c.get('ref') is None:
                    st = c.find(XS + 'simpleType')
                    if st is not None:
                        inline = self.simple_def(st)
                if c.get('ref') == 'xml:lang':
                    typ = 'xs:language'
                elif c.get('ref') == 'xml:space':
                    inline = dict(base='xs:NCName', enums=['default', 'preserve'])
                elif c.get('ref', '').startswith('xlink:'):
                    # xlink.xsd: href anyURI; type fixed 'simple'; role/title token/string; show/actuate enums
                    r = c.get('ref')
                    if r == 'xlink:href':
                        typ = 'xs:anyURI'
                    elif r == 'xlink:type':
                        inline = dict(base='xs:NMTOKEN', enums=['simple'])
                    elif r == 'xlink:show':
                        inline = dict(base='xs:NMTOKEN', enums=['new', 'replace', 'embed', 'other', 'none'])
                    elif r == 'xlink:actuate':
                        inline = dict(base='xs:NMTOKEN', enums=['onRequest', 'onLoad', 'other', 'none'])
                    elif r == 'xlink:role':
                        typ = 'xs:token'
                    else:
                        typ = 'xs:token'
                out.append(dict(name=name, type=typ, inline=inline, required=c.get('use') == 'required',
                                fixed=c.get('fixed'), default=c.get('default')))
            elif t == 'attributeGroup':
                out.extend(self.attrs_of(self.agroups[c.get('ref')]))
        return out

    def complex_def(self, name, ct):
        d = dict(content=self.content(ct, name), attrs=[], simple_base=None)
        sc = ct.find(XS + 'simpleContent')
        cc = ct.find(XS + 'complexContent')
        if sc is not None:
            ext = sc[0]
            d['simple_base'] = ext.get('base')
            d['attrs'] = self.attrs_of(ext)
        elif cc is not None:
            ext = cc[0]
            base = self.complex_def(ext.get('base'), self.ctypes[ext.get('base')])
            d['attrs'] = base['attrs'] + self.attrs_of(ext)
            d['simple_base'] = base['simple_base']
        else:
            d['attrs'] = self.attrs_of(ct)
        return d

    # ---- simple types
    def simple_def(self, st):
        d = {}
        r = st.find(XS + 'restriction')
        u = st.find(XS + 'union')
        if r is not None:
            d['base'] = r.get('base')
            en = [c.get('value') for c in r if _tag(c) == 'enumeration']
            if en:
                d['enums'] = en
            pats = [c.get('value') for c in r if _tag(c) == 'pattern']
            if pats:
                d['patterns'] = [pats]
            for c in r:
                if _tag(c) in ('minInclusive', 'minExclusive', 'maxInclusive', 'maxExclusive', 'minLength',
                               'maxLength', 'length', 'fractionDigits', 'totalDigits', 'whiteSpace'):
                    d[_tag(c)] = c.get('value')
        elif u is not None:
            d['union'] = (u.get('memberTypes') or '').split()
            inl = []
            for s in u.findall(XS + 'simpleType'):
                inl.append(self.simple_def(s))
            if inl:
                d['union_inline'] = inl
        else:
            raise ValueError('simpleType without restriction/union')
        return d

    def model(self):
        m = dict(elements={}, complex={}, simple={}, roots=['score-partwise'])
        # walk from score-partwise only (the partwise document type)
        root_el = [e for e in self.root.findall(XS + 'element') if e.get('name') == 'score-partwise'][0]
        self._declare(root_el, None)
        todo = [self.elements['score-partwise']]
        seen = set()
        while todo:
            tn = todo.pop()
            if tn in seen:
                continue
            seen.add(tn)
            if tn.startswith('#anon:'):
                ct = self.anon[tn]
            elif tn in self.ctypes:
                ct = self.ctypes[tn]
            else:
                continue      # simple type
            before = set(self.elements)
            d = self.complex_def(tn, ct)
            m['complex'][tn] = d
            for n in set(self.elements) - before:
                todo.append(self.elements[n])
            # types of all elements named in content (may have been declared earlier)
            def walk(p):
                if p is None:
                    return
                if p[0] == 'el':
                    todo.append(self.elements[p[1]])
                else:
                    for k in p[1]:
                        walk(k)
            walk(d['content'])
        reach = set()
        for tn, d in m['complex'].items():
            def names(p):
                if p is None:
                    return
                if p[0] == 'el':
                    reach.add(p[1])
                else:
                    for k in p[1]:
                        names(k)
            names(d['content'])
        reach.add('score-partwise')
        m['elements'] = {n: self.elements[n] for n in sorted(reach)}
        # every named complex type (also unreachable ones: library generates classes for all)
        for n, ct in self.ctypes.items():
            if n not in m['complex']:
                saved = dict(self.elements)
                try:
                    m['complex'][n] = self.complex_def(n, ct)
                except ValueError:
                    pass
                self.elements = saved
        for n, st in self.stypes.items():
            m['simple'][n] = self.simple_def(st)
        for n, d in BUILTINS.items():
            m['simple'][n] = dict(d, builtin=True)
        return m


def derive(path):
    return Reader(path).model()


def load():
    with open(PIN) as f:
        return json.load(f)


# ------------- helpers over a model
def names_of(p, out=None):
    out = [] if out is None else out
    if p is None:
        return out
    if p[0] == 'el':
        if p[1] not in out:
            out.append(p[1])
    else:
        for c in p[1]:
            names_of(c, out)
    return out


def resolve_simple(model, tname):
    """Flatten a named simple type to dict(kind, ws, enums, patterns(list of OR-lists, ANDed),
    min/max bounds (Fraction-able strings), minLength, union -> list of member names + inline enums)."""
    d = model['simple'][tname]
    return _resolve(model, d)


def _resolve(model, d):
    if 'union' in d or 'union_inline' in d:
        members = [resolve_simple(model, t) for t in d.get('union', [])]
        members += [_resolve(model, x) for x in d.get('union_inline', [])]
        return dict(kind='union', members=members)
    if d.get('builtin') and d.get('base') is None:
        out = dict(kind=d['kind'], ws=d['ws'], patterns=[], enums=None)
    else:
        base = d['base']
        out = dict(resolve_simple(model, base))
        out['patterns'] = list(out.get('patterns', []))
        if out['kind'] == 'union':
            # restriction of a union: only enumerations occur in MusicXML; keep members
            out = dict(out)
    if d.get('builtin'):
        out['kind'] = d['kind']
        out['ws'] = d['ws']
    for p in d.get('patterns', []):
        out['patterns'] = out.get('patterns', []) + [p]
    if d.get('enums') is not None:
        out['enums'] = d['enums']
    for k in ('minInclusive', 'minExclusive', 'maxInclusive', 'maxExclusive', 'minLength', 'maxLength'):
        if k in d:
            # a derived facet replaces the inherited one only if tighter; keep both by list
            out.setdefault('bounds', [])
            out['bounds'] = out['bounds'] + [[k, d[k]]]
    if 'whiteSpace' in d:
        out['ws'] = d['whiteSpace']
    return out


def attr_type(model, a):
    """resolved simple type of an attribute use record"""
    if a.get('inline') is not None:
        return _resolve(model, a['inline'])
    return resolve_simple(model, a['type'])


if __name__ == '__main__':
    if '--pin' in sys.argv:
        src = sys.argv[sys.argv.index('--pin') + 1]
        m = derive(src)
        os.makedirs(os.path.dirname(PIN), exist_ok=True)
        with open(PIN, 'w') as f:
            json.dump(m, f, indent=1, sort_keys=True)
        print('pinned', len(m['elements']), 'elements', len(m['complex']), 'complex', len(m['simple']), 'simple')
    else:
        m = load()
        print(len(m['elements']), len(m['complex']), len(m['simple']))
