"""symx: z3-backed dynamic symbolic execution of the unmodified library.

Engine.explore(harness) re-runs `harness(engine)` once per path.  Every decision the code under
test takes on a symbolic value goes through Engine.pick(expr): on first visit the solver is asked
for a feasible value; on backtracking the deepest decision is asked for a value different from all
tried ones, and is closed (popped) only by an `unsat` answer (closure query).  When the trail is
empty the explored paths partition the input space.
"""
import collections
import os
import re as _re
import signal
import sys
import time
import z3

from .lang import unescape


class Abort(BaseException):
    """path infeasible (assumption unsat)"""


class PathTimeout(BaseException):
    pass


class Leak(Exception):
    """a symbolic proxy reached code that used its concrete shadow: path is inconclusive"""


class SolverUnknown(Exception):
    pass


class Nondeterminism(Exception):
    pass


class Engine:
    def __init__(self, base=(), timeout_ms=30000, path_timeout_s=10.0):
        self.solver = z3.Solver()
        self.solver.set('timeout', timeout_ms)
        self.base = list(base)
        self.stats = collections.Counter()
        self.path_timeout_s = path_timeout_s
        self.trail = []
        self.pos = 0
        self.pending = []

    # -------------------------------------------------------------- solver plumbing
    def _check(self):
        t = time.time()
        r = str(self.solver.check())
        self.stats['solver_s'] += time.time() - t
        self.stats['solver_calls'] += 1
        self.stats['solver_' + r] += 1
        if r == 'unknown':
            raise SolverUnknown(self.solver.reason_unknown())
        return r == 'sat'

    @staticmethod
    def val(v):
        if z3.is_int_value(v):
            return v.as_long()
        if z3.is_true(v):
            return True
        if z3.is_false(v):
            return False
        if z3.is_string_value(v):
            return unescape(v.as_string())
        if z3.is_fp_value(v) or z3.is_fp(v):
            return fp_to_float(v)
        raise TypeError(repr(v))

    def _least(self, expr, v, tried=()):
        """the smallest feasible value of an Int/Bool decision under the current solver state (v is feasible):
        makes the exploration order, and therefore budget truncation, independent of z3's model choice"""
        if z3.is_bool(expr):
            if v is True and False not in tried:
                self.solver.push()
                self.solver.add(z3.Not(expr))
                ok = self._check()
                self.solver.pop()
                return False if ok else True
            return v
        if not z3.is_int(expr):
            return v
        while True:
            self.solver.push()
            self.solver.add(expr < v)
            ok = self._check()
            if ok:
                v = self.solver.model().eval(expr, model_completion=True).as_long()
            self.solver.pop()
            if not ok:
                return v

    def _eq(self, expr, v):
        if z3.is_fp(expr):
            return z3.fpEQ(expr, z3.FPVal(v, expr.sort())) if v == v else z3.fpIsNaN(expr)
        if z3.is_string(expr):
            return expr == z3.StringVal(v)
        return expr == v

    # -------------------------------------------------------------- exploration
    def explore(self, harness, max_paths=None):
        """generator of (decisions, result) per completed path"""
        self.trail = []
        self.solver.reset()
        self.solver.set('timeout', 30000)
        self.solver.add(*self.base)
        self.truncated = False
        while True:
            self.pos = 0
            self.pending = []
            res = None
            aborted = False
            old = None
            if self.path_timeout_s:
                old = signal.signal(signal.SIGALRM, _alarm)
                signal.setitimer(signal.ITIMER_REAL, self.path_timeout_s)
            try:
                res = harness(self)
            except Abort:
                aborted = True
            except PathTimeout:
                res = ('TIMEOUT',)
                self.stats['timeouts'] += 1
            finally:
                if self.path_timeout_s:
                    signal.setitimer(signal.ITIMER_REAL, 0)
                    signal.signal(signal.SIGALRM, old)
            if not aborted:
                self.stats['paths'] += 1
                yield [(d['label'], d['val']) for d in self.trail], res
            else:
                self.stats['aborted'] += 1
            if max_paths is not None and self.stats['paths'] >= max_paths:
                self.truncated = bool(self.trail) and self._any_open()
                return
            if not self._backtrack():
                return

    def _any_open(self):
        return True

    def _backtrack(self):
        while self.trail:
            d = self.trail[-1]
            self.solver.pop()
            self.solver.push()
            if d['pre']:
                self.solver.add(*d['pre'])
            self.solver.push()
            self.solver.add(*[z3.Not(self._eq(d['expr'], v)) for v in d['tried']])
            sat = self._check()
            if sat:
                v = self.val(self.solver.model().eval(d['expr'], model_completion=True))
                v = self._least(d['expr'], v, d['tried'])
                self.solver.pop()
                self.solver.add(self._eq(d['expr'], v))
                d['tried'].append(v)
                d['val'] = v
                return True
            self.stats['closures'] += 1
            self.solver.pop()
            self.solver.pop()
            self.trail.pop()
        return False

    def assume(self, c):
        self.pending.append(c)

    def pick(self, expr, label=None):
        """concretise expr on this path: fork over all its feasible values"""
        if self.pos < len(self.trail):
            d = self.trail[self.pos]
            if not d['expr'].eq(expr):
                raise Nondeterminism('decision %d: %s vs %s' % (self.pos, d['expr'], expr))
            self.pos += 1
            self.pending = []
            return d['val']
        pre = self.pending
        self.pending = []
        self.solver.push()
        if pre:
            self.solver.add(*pre)
        if not self._check():
            self.solver.pop()
            raise Abort()
        v = self.val(self.solver.model().eval(expr, model_completion=True))
        v = self._least(expr, v)
        self.solver.add(self._eq(expr, v))
        self.trail.append(dict(expr=expr, tried=[v], val=v, pre=pre, label=label or _short(expr)))
        self.pos += 1
        self.stats['decisions'] += 1
        return v

    def replaying(self):
        return self.pos < len(self.trail)

    def choose(self, label, build):
        """like pick, but the z3 terms are only built when the decision is new:
        build() -> (expr, [assumptions]).  Replayed decisions are matched by label."""
        if self.pos < len(self.trail):
            d = self.trail[self.pos]
            if d['label'] != label:
                raise Nondeterminism('decision %d: %s vs %s' % (self.pos, d['label'], label))
            self.pos += 1
            self.pending = []
            return d['val']
        expr, pre = build()
        self.pending.extend(pre)
        return self.pick(expr, label)

    def query(self, *extra):
        """satisfiability of path-condition ∧ extra (not part of the trail). model or None"""
        self.solver.push()
        if self.pending:
            self.solver.add(*self.pending)
        self.solver.add(*extra)
        try:
            if self._check():
                self.stats['queries_sat'] += 1
                return self.solver.model()
            self.stats['queries_unsat'] += 1
            return None
        finally:
            self.solver.pop()

    def path_condition(self):
        out = []
        for d in self.trail[:self.pos]:
            out.extend(d['pre'])
            out.append(self._eq(d['expr'], d['val']))
        return out


def _alarm(signum, frame):
    raise PathTimeout()


def _short(e):
    s = str(e).replace('\n', ' ')
    return s if len(s) < 80 else s[:77] + '...'


def fp_to_float(v):
    v = z3.simplify(v)
    if z3.is_fp_value(v):
        if v.isNaN():
            return float('nan')
        if v.isInf():
            return float('-inf') if v.isNegative() else float('inf')
        if v.isZero():
            return -0.0 if v.isNegative() else 0.0
        import struct
        sign = 1 if v.sign() else 0
        ebits = v.exponent_as_long(True)     # biased
        mant = v.significand_as_long()
        bits = (sign << 63) | (ebits << 52) | mant
        return struct.unpack('>d', struct.pack('>Q', bits))[0]
    raise TypeError(repr(v))


# ================================================================== proxies
ENGINE = None          # set by harness drivers (one engine per process at a time)
SENT = '￾'
_counter = [0]


def _sent():
    _counter[0] += 1
    return '%sSYM%d%s' % (SENT, _counter[0], SENT)


MAGIC_INT = (1 << 61) - 0x5EED


class SymBool:
    __slots__ = ('e',)

    def __init__(self, e):
        self.e = e

    def __bool__(self):
        return bool(ENGINE.pick(self.e))

    def __invert__(self):
        return SymBool(z3.Not(self.e))


def _num_term(o, like_fp=False):
    """z3 term for a python number / proxy; None if not numeric"""
    if isinstance(o, SymInt):
        return o.e
    if isinstance(o, SymFloat):
        return o.e
    if isinstance(o, bool):
        return z3.IntVal(int(o))
    if isinstance(o, int):
        return z3.IntVal(o)
    if isinstance(o, float):
        return z3.FPVal(o, z3.Float64())
    return None


def _to_fp(t):
    if z3.is_fp(t):
        return t
    if z3.is_int_value(t):
        n = t.as_long()
        if abs(n) >= 2 ** 53:
            raise Leak('int too large for exact float comparison')
        return z3.FPVal(float(n), z3.Float64())
    raise Leak('symbolic int compared with symbolic float')


def _cmp(a, b, op):
    if z3.is_fp(a) or z3.is_fp(b):
        a, b = _to_fp(a), _to_fp(b)
        return {'lt': z3.fpLT, 'le': z3.fpLEQ, 'gt': z3.fpGT, 'ge': z3.fpGEQ, 'eq': z3.fpEQ,
                'ne': lambda x, y: z3.Not(z3.fpEQ(x, y))}[op](a, b)
    return {'lt': lambda x, y: x < y, 'le': lambda x, y: x <= y, 'gt': lambda x, y: x > y,
            'ge': lambda x, y: x >= y, 'eq': lambda x, y: x == y, 'ne': lambda x, y: x != y}[op](a, b)


class _SymNum:
    def _bin(self, o, op):
        t = _num_term(o)
        if t is None:
            return NotImplemented
        return SymBool(_cmp(self.e, t, op))

    def __lt__(self, o): return self._bin(o, 'lt')
    def __le__(self, o): return self._bin(o, 'le')
    def __gt__(self, o): return self._bin(o, 'gt')
    def __ge__(self, o): return self._bin(o, 'ge')

    def __eq__(self, o):
        t = _num_term(o)
        if t is None:
            return False
        return SymBool(_cmp(self.e, t, 'eq'))

    def __ne__(self, o):
        t = _num_term(o)
        if t is None:
            return True
        return SymBool(_cmp(self.e, t, 'ne'))

    def __hash__(self):
        raise Leak('hash of symbolic number')

    def __format__(self, spec):
        return self.sent

    def __str__(self):
        return self.sent

    def __repr__(self):
        return self.sent

    def __bool__(self):
        return bool(ENGINE.pick(_cmp(self.e, _num_term(0), 'ne')))


class SymInt(_SymNum, int):
    def __new__(cls, e):
        o = int.__new__(cls, MAGIC_INT)
        o.e = e
        o.sent = _sent()
        return o

    def __index__(self):
        raise Leak('index of symbolic int')

    def __int__(self):
        return self

    def __float__(self):
        raise Leak('float() of symbolic int')

    def __neg__(self): return SymInt(-self.e)

    def _arith(self, o, f):
        t = _num_term(o)
        if t is None or z3.is_fp(t):
            raise Leak('mixed arithmetic')
        return SymInt(f(self.e, t))

    def __add__(self, o): return self._arith(o, lambda a, b: a + b)
    def __radd__(self, o): return self._arith(o, lambda a, b: b + a)
    def __sub__(self, o): return self._arith(o, lambda a, b: a - b)
    def __rsub__(self, o): return self._arith(o, lambda a, b: b - a)
    def __mul__(self, o): return self._arith(o, lambda a, b: a * b)
    def __rmul__(self, o): return self._arith(o, lambda a, b: b * a)


class SymRepr(str):
    """str(symbolic float): content is the sentinel; `'e' in text` forks on the CPython repr lemma
    (exponent form iff finite, non-zero and |x| < 1e-4 or |x| >= 1e16)"""
    def __new__(cls, owner):
        o = str.__new__(cls, owner.sent)
        o.owner = owner
        return o

    def __contains__(self, ch):
        if ch in ('e', 'E', 'e-', 'e+'):
            x = self.owner.e
            ax = z3.fpAbs(x)
            F = z3.Float64()
            fin = z3.And(z3.Not(z3.fpIsNaN(x)), z3.Not(z3.fpIsInf(x)), z3.Not(z3.fpIsZero(x)))
            small, large = z3.fpLT(ax, z3.FPVal(1e-4, F)), z3.fpGEQ(ax, z3.FPVal(1e16, F))
            f = z3.And(fin, {'e': z3.Or(small, large), 'e-': small, 'e+': large}.get(ch, z3.BoolVal(False)))
            return bool(ENGINE.pick(f)) if ch != 'E' else False
        if isinstance(ch, str) and not (set(ch) & set('0123456789.-+einfa')):
            return False          # no float repr contains such a character (e.g. XML markup tests by the serialiser)
        raise Leak('substring test on symbolic float repr')

    def __str__(self):
        return self

    def _leak(self, *a, **k):
        raise Leak('str method on symbolic float repr')
    split = replace = lower = upper = startswith = endswith = find = index = join = encode = strip = _leak
    __getitem__ = __iter__ = __add__ = __radd__ = __mod__ = __mul__ = _leak


class SymDecimal:
    """decimal.Decimal(str(symbolic float)) as seen through DecimalShim"""
    def __init__(self, owner):
        self.owner = owner

    def __format__(self, spec):
        if spec == 'f':
            return self.owner.sent_pos
        raise Leak('Decimal format %r on symbolic float' % spec)

    def __str__(self):
        raise Leak('str(Decimal) of symbolic float')


class DecimalShim:
    """stands for the `decimal` module inside the module under test"""
    def Decimal(self, x=0, *a):
        if isinstance(x, SymRepr):
            return SymDecimal(x.owner)
        import decimal
        return decimal.Decimal(x, *a)

    def __getattr__(self, k):
        import decimal
        return getattr(decimal, k)


class MathShim:
    """stands for the `math` module inside the module under test: isfinite / isnan / isinf on symbolic numbers"""
    def _fp(self, v):
        if isinstance(v, SymFloat):
            return v.e
        return None

    def isfinite(self, v):
        if isinstance(v, SymFloat):
            return bool(ENGINE.pick(z3.And(z3.Not(z3.fpIsNaN(v.e)), z3.Not(z3.fpIsInf(v.e)))))
        if isinstance(v, SymInt):
            # CPython converts the int to a C double: OverflowError from 2**1024 on
            if bool(ENGINE.pick(z3.Or(v.e >= 2 ** 1024, v.e <= -(2 ** 1024)))):
                raise OverflowError('int too large to convert to float')
            return True
        import math
        return math.isfinite(v)

    def isnan(self, v):
        if isinstance(v, SymFloat):
            return bool(ENGINE.pick(z3.fpIsNaN(v.e)))
        if isinstance(v, SymInt):
            if bool(ENGINE.pick(z3.Or(v.e >= 2 ** 1024, v.e <= -(2 ** 1024)))):
                raise OverflowError('int too large to convert to float')
            return False
        import math
        return math.isnan(v)

    def isinf(self, v):
        if isinstance(v, SymFloat):
            return bool(ENGINE.pick(z3.fpIsInf(v.e)))
        if isinstance(v, SymInt):
            if bool(ENGINE.pick(z3.Or(v.e >= 2 ** 1024, v.e <= -(2 ** 1024)))):
                raise OverflowError('int too large to convert to float')
            return False
        import math
        return math.isinf(v)

    def __getattr__(self, k):
        import math
        f = getattr(math, k)
        if callable(f):
            def guarded(*a, **kw):
                if any(isinstance(x, (SymInt, SymFloat)) for x in a):
                    raise Leak('math.%s on a symbolic number' % k)
                return f(*a, **kw)
            return guarded
        return f


class SymFloat(_SymNum, float):
    def __new__(cls, e):
        o = float.__new__(cls, 1.2345678910111213e+77)
        o.e = e
        o.sent = _sent()
        o.sent_pos = _sent().replace('SYM', 'POS')
        return o

    def __str__(self):
        return SymRepr(self)

    def __repr__(self):
        return SymRepr(self)

    def __float__(self):
        return self

    def __int__(self):
        raise Leak('int() of symbolic float')

    def __neg__(self): return SymFloat(z3.fpNeg(self.e))


class SymStr(str):
    def __new__(cls, e, maxlen=12):
        s = _sent()
        o = str.__new__(cls, s)
        o.e = e
        o.sent = s
        o.maxlen = maxlen
        return o

    def __eq__(self, o):
        if isinstance(o, SymStr):
            return SymBool(self.e == o.e)
        if isinstance(o, str):
            return SymBool(self.e == z3.StringVal(o))
        return False

    def __ne__(self, o):
        r = self.__eq__(o)
        return SymBool(z3.Not(r.e)) if isinstance(r, SymBool) else True

    def __hash__(self):
        raise Leak('hash of symbolic str')

    def __len__(self):
        return ENGINE.pick(z3.Length(self.e))

    def __bool__(self):
        return bool(ENGINE.pick(z3.Length(self.e) > 0))

    def __format__(self, spec):
        return str.__str__(self)

    def __str__(self):
        return self

    def __repr__(self):
        return str.__str__(self)

    def __lt__(self, o): return self._cmp_fail(o)
    def __le__(self, o): return self._cmp_fail(o)
    def __gt__(self, o): return self._cmp_fail(o)
    def __ge__(self, o): return self._cmp_fail(o)

    def _cmp_fail(self, o):
        if isinstance(o, str):
            raise Leak('ordering of symbolic str')
        return NotImplemented      # -> TypeError from the interpreter, as for a real str vs int

    def strip(self, chars=None):
        # harnesses assume whitespace-normalised strings (no leading/trailing space)
        if chars is None:
            return self
        raise Leak('strip(chars) on symbolic str')

    def _leak(self, *a, **k):
        raise Leak('str method on symbolic str')
    split = replace = lower = upper = startswith = endswith = find = index = join = encode = _leak
    __getitem__ = __iter__ = __add__ = __radd__ = __mod__ = __mul__ = _leak

    def __contains__(self, ch):
        if SERIALISING and ch in ('&', '<', '>', '"', "'", '\n', '\r', '\t'):
            return False      # xml.etree's escaping is environment: the value is handed over verbatim (escaping itself: C16)
        raise Leak('substring test on symbolic str')


SERIALISING = False


def has_sentinel(x):
    if isinstance(x, str):
        return SENT in str.__str__(x) if isinstance(x, SymStr) else SENT in x
    if isinstance(x, int) and not isinstance(x, bool):
        return int.__index__(x) == MAGIC_INT if isinstance(x, SymInt) else x == MAGIC_INT
    return False


# ================================================================== regex shim
class SymPattern:
    """what `re.compile(p)` returns inside the module under test"""
    translate = None      # set by harness: function(pattern) -> z3 regex over SIGMA

    def __init__(self, p, flags=0):
        self.p = p
        self.real = _re.compile(p, flags)
        self.z = None

    def fullmatch(self, v):
        if isinstance(v, SymStr):
            if self.z is None:
                self.z = SymPattern.translate(self.p)
            return True if bool(SymBool(z3.InRe(v.e, self.z))) else None
        return self.real.fullmatch(v)

    def __getattr__(self, k):
        return getattr(self.real, k)


class ReShim:
    def compile(self, p, flags=0):
        return SymPattern(p, flags)

    def __getattr__(self, k):
        return getattr(_re, k)


# ================================================================== coverage of /repo functions
class FuncTrace:
    """names of /repo functions entered while active (sys.setprofile; used on a few paths per unit)"""

    def __init__(self, root='/repo/'):
        self.root = root
        self.funcs = set()

    def __enter__(self):
        def prof(frame, event, arg):
            if event == 'call':
                fn = frame.f_code.co_filename
                if fn.startswith(self.root):
                    self.funcs.add('%s:%s' % (fn[len(self.root):], frame.f_code.co_qualname))
        sys.setprofile(prof)
        return self

    def __exit__(self, *a):
        sys.setprofile(None)
